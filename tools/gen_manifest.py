#!/usr/bin/env python3
"""Regenerates /verif/MANIFEST.json from the table below (claimed checks) and
properties.jsonl (everything else goes to not_applicable with a reason)."""
import json

LEVEL_NOTE = ("trusted: go/ssa translation; the gosym SSA interpreter (validated every run by native replay of solver "
              "models of completed paths and of every counterexample); z3 5.1.0 (incremental core first, qfbv bit-blasting when it does not answer in 30 ms; every model that steers a branch is re-evaluated against the path condition; a sample of queries per run is "
              "cross-checked on z3 4.8.12 / cvc5); the listed stubs (clock, rand, logging, sleep); the reference models in "
              "/verif/harness; bounds as stated in the evidence file - nothing is claimed outside them")
TECH = "solver-based bounded symbolic execution of the real code (go/ssa -> SMT bit-vectors, z3), counterexamples replayed natively"

CLAIMED = {
    "C01": ("bounded symbolic model checking of the RESP codec and the connection read loop on symbolic bytes: parse(enc(args) ++ tail) returns exactly args and "
            "len(enc(args)) for arbitrary argument bytes (incl. CR/LF/NUL/non-UTF-8) and every strict prefix is 'need more'; deserialize(serialize(v)) = v for bounded reply "
            "trees; error replies quoting arbitrary client bytes stay one frame; the real clientCxn inbound-buffer code dispatches two pipelined commands in order for every "
            "cutting of the stream into <= 3 segments and writes cut-independent reply bytes; the serializer on simple-string / error replies with arbitrary text of up to 5 (8) bytes: body free of CR and LF, one frame", "5/C01"),
    "C06": ("bounded symbolic model checking: (L2) 182 command templates covering the data commands x the target key in each of 5 type states (with/without TTL), symbolic "
            "values and unconstrained int64 arguments through the real dispatcher, with the monitors 'error reply => every key/value/expiry unchanged', 'no empty "
            "list/hash/set', 'one type per key with matching payload', dictionary placement invariant, no panic; RENAME/RENAMENX/COPY[REPLACE] on every type incl. "
            "source = destination carrying value and expiry; DEL/UNLINK/EXISTS/TOUCH/TYPE/DBSIZE/KEYS/RANDOMKEY against the set of live keys; SORT; redisGlob against "
            "Redis' stringmatchlen for all patterns <= 3 (4) characters over the glob alphabet; SORT with BY / LIMIT (all 64-bit offsets and counts) / GET / DESC / STORE against sort.c; thorough tier: 212 argument shapes derived from the real command grammar (every optional argument and oneof alternative of every handler) under the same monitors; an UNLINKed key behaves as a missing one for every command template (relational, two servers)", "5/C06"),
    "C07": ("bounded symbolic model checking with the clock as a harness variable: for each of 182 command templates and each type of the key, the reply and resulting "
            "state with the key expired-but-still-stored equal those with the key missing (and read commands never list it); per-command TTL rules (30 commands: in-place "
            "modifiers keep, replacing commands clear); EXPIRE/PEXPIRE/EXPIREAT/PEXPIREAT x NX/XX/GT/LT with a symbolic argument (|n| < 3000 units around now) and exact "
            "TTL/PTTL/EXPIRETIME/PEXPIRETIME read-back; visibility 1 ms before / after the deadline; unrepresentable TTLs are refused", "5/C07"),
    "C08": ("reduction to a per-command obligation decided by bounded symbolic execution: for 182 command templates x 5 key types the real command runs under a lock-set "
            "monitor over store memory (everything reachable from the data store set at command entry plus what the command publishes); every path must touch store "
            "memory only while a mutex is held and only inside one section of the database mutex (strict two-phase with one lock => every concurrent history is "
            "serialisable in lock-acquisition order); writes into the shared start-up tables are flagged as well. A violation is confirmed natively by running the command "
            "concurrently with writers of the same key under the Go race detector. Direct check for two clients: for the multi-key and read-modify-write commands the property names (whole table in the thorough tier) another connection's command is placed at every boundary of the command's critical sections and replies + final state must equal one of the two serial orders (computed on identical servers); two critical sections are confirmed natively by counting acquisitions of the database mutex", "5/C08"),
    "C09": ("bounded symbolic model checking of transaction programs (1..4 steps quick, 5 thorough; each step a symbolic choice among MULTI, EXEC, DISCARD, WATCH, UNWATCH, a "
            "valid write, a command failing at run time, commands rejected at queue time (unknown name, bad arity) and a blocking pop) through the real dispatcher against the "
            "multi.c state machine: reply class of every step, queue/normal mode, no effect while queueing (observer connection between steps), one reply per queued command, "
            "runtime error does not stop the rest, EXECABORT after a queue-time rejection, abort by WATCH, state reset after EXEC/DISCARD", "5/C09"),
    "C10": ("bounded symbolic model checking of WATCH k; <one command>; MULTI; SET marker; EXEC for every key type of k and a table of 20-30 commands per type (in-place "
            "writers of every type, replacing writers, rename from/onto, copy onto, expiry changes, flushes, reads, failing writes), issued by the watching or another connection "
            "before or after MULTI: EXEC aborts iff Redis counts the command as a modification; UNWATCH/DISCARD forget; repeated / accumulating WATCH, keys in other databases; inductive invariant over the command table: a key whose content, expiry or identity changed carries a version stamp never used before (so no sequence of commands can restore a watched stamp)", "5/C10"),
    "C11": ("bounded symbolic model checking of the block/wake protocol: the real BLPOP/BRPOP (one or two keys) or BLMOVE with timeout 0 runs as the strand under test; "
            "at the entry of every lock-taking function of its protocol and whenever it is parked in its select, another connection performs zero or one command chosen "
            "symbolically among RPUSH x1/x2, LPOP, DEL, push to the second key (<= 3 environment commands per path). Checked: a strand parked for good never coexists with "
            "a non-empty list it waits on (no lost wake-up); the returned element was pushed, was taken by nobody else, and pushed = returned + taken + remaining "
            "(exactly-once); the connection is back to normal afterwards. Wait table: three waiters on symbolic subsets of two keys, unblock(name, n) serves the longest "
            "waiters first and keeps both linked structures consistent. Counterexamples replay natively with a goroutine scheduler driven at the same schedule points; all five blocking commands (BRPOPLPUSH, BLMPOP incl. two keys); thorough tier adds LTRIM / RENAME / LMOVE as competitors; per-command wake-up invariant: two waiters registered through the real wait table, one waiter signalled per element that arrives in the list (pushes, PUSHX, LINSERT, LMOVE, RENAME, COPY, SORT STORE), oldest first", "5/C11"),
    "C12": ("bounded symbolic model checking of how a block ends: CLIENT UNBLOCK id [TIMEOUT|ERROR] issued while the target is parked, or the (stub) timer firing: null / "
            "UNBLOCKED error reply, reply 1 only for a blocked target (0 for idle or unknown ids, 0 after the fact), capture state / pending flag / mailbox / wait "
            "queues reset, a later push stays in the list, the connection blocks and is served again; blocking commands queued in MULTI return null at EXEC without "
            "blocking. Outside the claim: promptness after the timeout (Go runtime timers) and TCP close / CLIENT KILL delivery; the timer a block arms: exactly the timeout, exactly the remaining time after a lost race (harness clock), no reachable deadline for timeout 0, null reply and state reset when it fires; CLIENT UNBLOCK [ERROR] arriving at every schedule point of all five blocking commands: reports 1 exactly when it ends the block, is never remembered; any one of three waiters leaving the wait queues without data: the others keep their order and a later push serves the oldest", "5/C12"),
    "C13": ("bounded symbolic model checking of the parser on every byte string up to 5 (quick) / 7 (thorough) bytes and of the length-taking parser routines for every "
            "non-negative declared count: no panic, no allocation by declared size, consumed length inside the buffer (command-level no-panic obligations are part of "
            "the per-family checks C02-C05/C18, whose harnesses run under vCatch with unconstrained int64 arguments); every length-taking header ($ * % ~ > | ! = and the ;n chunks of streamed strings) with an arbitrary 64-bit number through the public parser entry; the command table (182 templates, thorough: + 212 grammar-derived shapes) x 5 key types with every integer argument an arbitrary 64-bit number under the no-panic / no-client-sized-allocation monitor; commands with non-bulk RESP2/RESP3 arguments; session commands queued and run by EXEC (self-deadlock = a strand that blocks for ever is reported); RESTORE with arbitrary 10..16-byte payloads (the solver produces the checksum) and DUMP/RESTORE round trips; lock order: every nested mutex acquisition of the session commands and two cross-database programs is logged by class, opposite edges and ungated nestings of two database locks are candidates, each confirmed natively by two command loops that stop making progress", "5/C13"),
    "C02": ("bounded symbolic model checking of the real command path (dispatcher, grammar parser, handlers, store) for the string/counter family: "
            "SET option combinations on every key type, SETNX/GETSET/GETDEL/APPEND/STRLEN, MSET/MSETNX all-or-nothing, INCR family for all int64 "
            "old values and deltas with exact overflow, GETRANGE/SETRANGE for all int64 offsets, against a model of t_string.c; values are symbolic byte strings of <= 2-3 bytes (4-5 in the thorough tier); INCRBYFLOAT result text / errors on concrete vectors (floating point is outside the solver: sampled, not for all values); SET with EX/PX/EXAT/PXAT for every non-positive number (refused, inert) and a table of positive ones around now", "5/C02"),
    "C03": ("bounded symbolic model checking of every list command through the real dispatcher on lists of symbolic length (<=3 quick, <=5 thorough) "
            "with symbolic one-byte elements and unconstrained int64 index/count/rank arguments, against a Go-slice model of t_list.c plus the "
            "linked-list representation invariant (inductive step within the size bound)", "5/C03"),
    "C04": ("bounded symbolic model checking of the hash commands through the real dispatcher: hashes over a 3-name pool with symbolic membership and "
            "values, HSET/HMSET/HSETNX/HDEL and all read commands against a map model of t_hash.c, HINCRBY for all int64 old values and increments with "
            "exact overflow, HRANDFIELD result shape for counts -3..3 (rand = round-robin from an arbitrary start) and extreme counts; HINCRBYFLOAT result text / errors on concrete vectors (sampled)", "5/C04"),
    "C05": ("bounded symbolic model checking of the set commands through the real dispatcher: operand sets over a 3-name universe with symbolic membership "
            "(missing / wrong-typed / repeated operands, STORE destination among the operands or of another type), against bit-vector set algebra; SMOVE incl. "
            "source = destination, SREM, SINTERCARD for all int64 limits, SRANDMEMBER shape for counts -3..3 and extreme counts", "5/C05"),
    "C14": ("bounded symbolic model checking of programs of 2 (quick) / 3 (thorough) steps by two connections plus a third opened at a symbolic step, each step a "
            "symbolic choice of SELECT / SET / GET / DEL / DBSIZE / FLUSHDB / FLUSHALL / CLIENT SETNAME / GETNAME, against 16 model maps and per-connection session records "
            "(every reply, frame condition on every connection after every step, final cross-read); SELECT for every int64 index; SELECT queued inside MULTI (3-4 queued steps) with an observer connection reading every database; a client blocked in a pop while its database is flushed (FLUSHDB / FLUSHALL) is served by the next push", "5/C14"),
    "C15": ("bounded symbolic model checking of resp3To2 on reply trees of every RESP3 kind (depth <= 1 quick / 2 thorough, symbolic leaves) against the canonical "
            "down-conversion, RESP2-only output types and one-frame serialisation; HELLO for all int64 protocol versions incl. frame condition on a second connection; "
            "30 commands of every reply shape executed on identical data under RESP2 and RESP3 with reply2 = downconvert(reply3); replies of a dispatch hook (bool, big number, map, double, array, set) take the same conversion", "5/C15"),
    "C16": ("lock-set discipline decided by bounded symbolic execution, every report confirmed by the Go race detector: each session / introspection command (25 commands, "
            "in and out of MULTI), connection tear-down, and the 182 data-command templates run under a monitor that logs every access to per-connection, global and store "
            "memory with the set of mutexes held; two accesses to one field from different connections with disjoint lock sets and at least one write are a candidate pair; "
            "each pair is run concurrently (300 iterations on two connections) in a -race build and only a detector report is a violation; unconfirmed candidates are "
            "listed in the evidence. Sufficient, not necessary: races the bounded command shapes do not reach, and goroutines of the socket layer and the saver, are outside the claim; the periodic saver (dss.save) is one more actor of the analysis; package-level variables (client id counter, client table) and connection set-up are part of the log", "5/C16"),
    "C17": ("inductive argument, each lemma decided on the real code: hashToIndex(h,2n)>>1 == hashToIndex(h,n) for every 64-bit hash and n = 16..256 (growth splits bucket i "
            "into 2i,2i+1); one call of dictScanUnlocked on tables of 16 and 32 buckets (occupancy patterns, tracked bucket, every start position, arbitrary cursor bits above "
            "the mask, COUNT 1..3): progress, nothing between old and new position skipped, nothing invented, and the returned cursor decodes to 2x / half the position after "
            "doubling / halving; bounded end-to-end SCAN and SSCAN iterations (18-20 names, table growth from 16 to 32 buckets or shrink between two calls); iterations with MATCH / TYPE filters and an expired key that must never be returned", "5/C17"),
    "C18": ("bounded symbolic model checking: the real bit kernels (extractBitfield, setBitfield, signExtend, signed/unsigned overflow) over a 10-byte "
            "symbolic array / all int64 values and all offsets and widths against a big-endian bit-vector reference and Redis' overflow functions; "
            "BITFIELD GET/SET/INCRBY through the real dispatcher (type table, bit and #-offsets, every OVERFLOW mode, symbolic stored bytes and value) against "
            "bitfieldGeneric; SETBIT/GETBIT, BITCOUNT and BITPOS for all int64 ranges on strings of <= 1 byte (quick) / 2 bytes (thorough), BITOP with zero padding; BITFIELD / BITFIELD_RO offsets (plain and #n) for every 64-bit number", "5/C18"),
    "C19": ("bounded symbolic model checking of the real save/load code over a file-system/gob model (files are record lists; every Create/Encode/Rename/Remove is one "
            "effect; gob's empty-slice quirk is modelled): save -> restart -> load restores keys, types, values, element order, deadlines and the version counter for a store "
            "with symbolic values of every type; a further acknowledged change out of 16 (in-place, deleting, flushing, renaming) survives a second save/restart; a save cut "
            "after any number of effects loads as the old or the new snapshot; and (L2 dirty gate) for 182 command templates x 5 key types: state changed => store marked "
            "dirty. Counterexamples replay natively on real files with real gob; store-set level: three databases (one created after the first save), second-round changes, restart through newDataStoreSet walking the model's directory; a crash at every effect of the save of two databases", "5/C19"),
}

CATEGORY = {"C16": "other"}

NOT_APPLICABLE = {
    "C20": "close latency, port release/re-bind and goroutine lifetimes are properties of net.Listen/Accept, OS sockets and wall-clock bounds; there is no data-dependent computation to encode, a solver verdict would be a verdict about stubs (DESIGN.md 5/C20)",
}


def main():
    props = [json.loads(l) for l in open('/verif/properties.jsonl') if l.strip()]
    checks = []
    for pid in sorted(CLAIMED):
        text, ref = CLAIMED[pid]
        checks.append({
            "property_id": pid,
            "quick_cmd": "./check %s quick" % pid,
            "thorough_cmd": "./check %s thorough" % pid,
            "evidence_file": "/verif/evidence/%s.json" % pid,
            "replay_cmd_template": "./check replay {path}",
            "engine": "gosym",
            "level_claimed": {"category": CATEGORY.get(pid, "model_checking"), "text": text, "design_ref": ref},
            "level_note": LEVEL_NOTE,
            "technique": TECH,
        })
    na = []
    for p in props:
        if p["id"] in CLAIMED:
            continue
        na.append({"property_id": p["id"], "reason": NOT_APPLICABLE.get(
            p["id"], "check not built yet in this session (planned, see DESIGN.md section 5); no claim is made")})
    m = {
        "version": 1,
        "setup_cmd": "cd /verif/engine && GOFLAGS=-mod=mod GOPROXY=off GOSUMDB=off GOTOOLCHAIN=local go build -o /verif/bin/gosym .",
        "hooks": {"guard": "verif",
                  "enable": "harness files are presented as overlay files of package redisemu with -tags verif (packages.Config.Overlay for the engine, go test -overlay for native replay); /repo carries no instrumentation",
                  "baseline_off_cmd": "/verif/baseline_off.sh", "source_commits": [], "add_only": True},
        "engines": [{"name": "gosym", "path": "/verif/engine", "serves_properties": sorted(CLAIMED),
                     "kind_free_text": "symbolic interpreter for go/ssa (path-wise, re-execution based, forked from x/tools ssa/interp) with SMT back end (z3 5.1.0 qfbv; z3 4.8.12 and cvc5 as fall-back / cross-check); harnesses in /verif/harness; native replay through go test -overlay"}],
        "checks": checks,
        "not_applicable": na,
        "notes": "Exit code 3 = inconclusive (solver unknown, bound hit, unsupported construct, engine/native mismatch): never reported as success nor as violation. Repairs of genuine defects are 'fix:' commits in /repo, listed in /verif/known_findings.json.",
    }
    json.dump(m, open('/verif/MANIFEST.json', 'w'), indent=1)


if __name__ == "__main__":
    main()
