#!/bin/bash
# seed_eval.sh <seed-id> <property> <dir-with-out/>  : validate a seeded change and run the property's check against it
set -u
ID=$1; PROP=$2; SRC=$3; TIER=${4:-quick}
export GOFLAGS=-mod=mod GOPROXY=off GOSUMDB=off GOTOOLCHAIN=local
D=/verif/seeded/$ID
mkdir -p $D
cp $SRC/out/patch.diff $D/patch.diff
cp $SRC/out/zz_demo_test.go $D/zz_demo_test.go
cp $SRC/out/notes.md $D/agent_notes.md 2>/dev/null
W=/tmp/sv_$ID
git -C /repo worktree remove --force $W 2>/dev/null
git -C /repo worktree add -q --detach $W HEAD || exit 2
cd $W
PAT="^($(paste -sd'|' /verif/baseline_tests.txt))\$"
cp $D/zz_demo_test.go .
DEMO_ORIG=$(go test -vet=off -count=1 -timeout 5m -run '^TestSeededDemo$' . 2>&1 | tail -1)
git apply $D/patch.diff || { echo "patch does not apply"; exit 2; }
BUILD=$(go build ./... 2>&1 | tail -1)
BASE=$(go test -vet=off -count=1 -timeout 10m -run "$PAT" -json . 2>/dev/null | grep -c '"Action":"pass","Package".*"Test"')
DEMO_PATCH=$(go test -vet=off -count=1 -timeout 5m -run '^TestSeededDemo$' . 2>&1 | tail -1)
cd /verif
git -C /repo worktree remove --force $W
echo "demo on original: $DEMO_ORIG"
echo "build with patch: ${BUILD:-ok}"
echo "baseline with patch: $BASE/68 pass"
echo "demo with patch: $DEMO_PATCH"
# run the check against it: normally the patch is applied to /repo and undone afterwards; with
# SEED_SCRATCH=1 (a long background run is reading /repo) the check runs against a scratch
# worktree of /repo with the patch applied (VERIF_REPO)
if [ "${SEED_SCRATCH:-0}" = "1" ]; then
  R=/tmp/sr_$ID
  git -C /repo worktree remove --force $R 2>/dev/null
  git -C /repo worktree add -q --detach $R HEAD || exit 2
  git -C $R apply $D/patch.diff || exit 2
  T0=$(date +%s)
  VERIF_REPO=$R ./check $PROP $TIER > $D/check_output.txt 2>&1
  RC=$?
  T1=$(date +%s)
  git -C /repo worktree remove --force $R
else
  git -C /repo apply $D/patch.diff || exit 2
  T0=$(date +%s)
  ./check $PROP $TIER > $D/check_output.txt 2>&1
  RC=$?
  T1=$(date +%s)
  git -C /repo checkout -- .
  git -C /repo status --short | head -3
fi
echo "check $PROP $TIER rc=$RC in $((T1-T0))s"
grep -E "^VIOLATION|^violated|^INCONCLUSIVE|^OK" $D/check_output.txt | head -8
python3 - <<PY
import json
json.dump({"seed":"$ID","property":"$PROP","demo_on_original":"""$DEMO_ORIG""","baseline_with_patch":"$BASE/68","demo_with_patch":"""$DEMO_PATCH""",
 "check_cmd":"./check $PROP $TIER","check_exit":$RC,"check_seconds":$((T1-T0)),"detected":$RC==1}, open("$D/meta.json","w"), indent=1)
PY
