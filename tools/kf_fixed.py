#!/usr/bin/env python3
"""kf_fixed.py <property> <commit-subject-substring> <harness> <what failed>  -- record a fixed finding"""
import json,subprocess,sys
pid,prefix,harness,what=sys.argv[1:5]
log=subprocess.run(['git','-C','/repo','log','--format=%h %s'],capture_output=True,text=True).stdout.strip().split('\n')
c=[l.split()[0] for l in log if prefix in l]
if not c: raise SystemExit('no commit matches '+prefix)
p='/verif/known_findings.json'
try: ents=json.load(open(p))
except Exception: ents=[]
ents=[e for e in ents if not (e.get('status')=='fixed' and e.get('what')==what)]
ents.append({"property":pid,"status":"fixed","commit":c[0],"harness":harness,"what":what,"line":"fixed: property=%s %s %s"%(pid,c[0],what)})
json.dump(ents,open(p,'w'),indent=1)
print(ents[-1]['line'])
