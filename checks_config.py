# Per-property check configuration: which harnesses decide the property at
# each tier, engine options, and the stated bounds / assumptions that are
# copied into the evidence file.

COMMON_ASSUMPTIONS = [
    "go/ssa (x/tools v0.29.0) translates the source faithfully; the gosym interpreter implements SSA semantics (every reported counterexample is replayed natively against the real build; a counterexample that does not reproduce is reported as ENGINE-MISMATCH/inconclusive, never as a violation)",
    "SMT solvers: z3 5.1.0 (qfbv tactic) decides every query; z3 4.8.12 / cvc5 1.0 are used on unknown and to cross-check a sample of queries per run",
    "logging (go-lane) and JSON trace text are empty stubs; time.Now is a harness-controlled clock; math/rand.Intn returns an arbitrary in-range value; time.Sleep is a no-op",
    "map iteration follows insertion order (thorough tier re-runs order-sensitive harnesses in reverse order)",
]

PROPERTIES = {
    "C01": {
        "level": "model_checking",
        "quick": [{"match": "VerifH_c01_.*", "timeout": 600, "shards": {"VerifH_c01_readloop": 3},
                   "allow_unsupported": ["non-ASCII byte"]}],
        "thorough": [{"match": "VerifH_c01_.*", "timeout": 2400, "shards": {"VerifH_c01_readloop": 6},
                      "allow_unsupported": ["non-ASCII byte"]}],
        "bounds": {}, "outside": [], "assumptions": [],
    },
    "C06": {
        "level": "model_checking",
        "quick": [{"match": "VerifH_c06_.*", "timeout": 900, "shards": {"VerifH_c06_l2": 10, "VerifH_c06_glob": 3, "VerifH_c06_keyspace_reports": 3}, "sharddepth": 12,
                   "allow_unsupported": ["non-ASCII", "symbolic allocation size", "ParseFloat", "opaque"]}],
        "thorough": [{"match": "VerifH_c06_.*", "timeout": 3000, "shards": {"VerifH_c06_l2": 12, "VerifH_c06_glob": 6, "VerifH_c06_keyspace_reports": 4}, "sharddepth": 12,
                   "allow_unsupported": ["non-ASCII", "symbolic allocation size", "ParseFloat", "opaque"]}],
        "bounds": {}, "outside": [], "assumptions": [],
    },
    "C07": {
        "level": "model_checking",
        "quick": [{"match": "VerifH_c07_.*", "timeout": 900, "shards": {"VerifH_c07_expired_is_absent": 10, "VerifH_c07_expire_arith": 4}, "sharddepth": 12,
                   "allow_unsupported": ["non-ASCII", "symbolic allocation size", "ParseFloat", "opaque"]}],
        "thorough": [{"match": "VerifH_c07_.*", "timeout": 3000, "shards": {"VerifH_c07_expired_is_absent": 12, "VerifH_c07_expire_arith": 4}, "sharddepth": 12,
                   "allow_unsupported": ["non-ASCII", "symbolic allocation size", "ParseFloat", "opaque"]}],
        "bounds": {}, "outside": [], "assumptions": [],
    },
    "C09": {
        "level": "model_checking",
        "quick": [{"match": "VerifH_c09_.*", "timeout": 600, "shards": 4}],
        "thorough": [{"match": "VerifH_c09_.*", "timeout": 3000, "shards": 12}],
        "bounds": {}, "outside": [], "assumptions": [],
    },
    "C10": {
        "level": "model_checking",
        "quick": [{"match": "VerifH_c10_.*", "timeout": 600, "shards": {"VerifH_c10_watch": 4}, "sharddepth": 8}],
        "thorough": [{"match": "VerifH_c10_.*", "timeout": 3000, "shards": {"VerifH_c10_watch": 6}, "sharddepth": 8}],
        "bounds": {}, "outside": [], "assumptions": [],
    },
    "C11": {
        "level": "model_checking",
        "quick": [{"match": "VerifH_c11_.*", "timeout": 900, "shards": {"VerifH_c11_blpop": 8}, "sharddepth": 8, "validate": 2}],
        "thorough": [{"match": "VerifH_c11_.*", "timeout": 3000, "shards": {"VerifH_c11_blpop": 12}, "sharddepth": 8, "validate": 2}],
        "bounds": {}, "outside": [], "assumptions": [],
    },
    "C12": {
        "level": "model_checking",
        "quick": [{"match": "VerifH_c12_.*", "timeout": 600, "validate": 2}],
        "thorough": [{"match": "VerifH_c12_.*", "timeout": 1200, "validate": 2}],
        "bounds": {}, "outside": [], "assumptions": [],
    },
    "C13": {
        "level": "model_checking",
        "quick": [{"match": "VerifH_c13_.*", "timeout": 600, "allow_unsupported": ["ParseFloat of symbolic text"]}],
        "thorough": [{"match": "VerifH_c13_.*", "timeout": 2400, "allow_unsupported": ["ParseFloat of symbolic text"]}],
        "bounds": {}, "outside": [], "assumptions": [],
    },
    "C02": {
        "level": "model_checking",
        "quick": [{"match": "VerifH_c02_.*", "timeout": 300}],
        "thorough": [{"match": "VerifH_c02_.*", "timeout": 1500}],
        "bounds": {}, "outside": [], "assumptions": [],
    },
    "C03": {
        "level": "model_checking",
        "quick": [{"match": "VerifH_c03_.*", "timeout": 600}],
        "thorough": [{"match": "VerifH_c03_.*", "timeout": 2400}],
        "bounds": {}, "outside": [], "assumptions": [],
    },
    "C04": {
        "level": "model_checking",
        "quick": [{"match": "VerifH_c04_.*", "timeout": 600}],
        "thorough": [{"match": "VerifH_c04_.*", "timeout": 2400}],
        "bounds": {}, "outside": [], "assumptions": [],
    },
    "C05": {
        "level": "model_checking",
        "quick": [{"match": "VerifH_c05_.*", "timeout": 600}],
        "thorough": [{"match": "VerifH_c05_.*", "timeout": 2400}],
        "bounds": {}, "outside": [], "assumptions": [],
    },
    "C14": {
        "level": "model_checking",
        "quick": [{"match": "VerifH_c14_.*", "timeout": 600, "shards": {"VerifH_c14_programs": 8}}],
        "thorough": [{"match": "VerifH_c14_.*", "timeout": 3000, "shards": {"VerifH_c14_programs": 14}}],
        "bounds": {}, "outside": [], "assumptions": [],
    },
    "C15": {
        "level": "model_checking",
        "quick": [{"match": "VerifH_c15_.*", "timeout": 600, "shards": {"VerifH_c15_downconvert": 6},
                   "allow_unsupported": ["non-ASCII byte"]}],
        "thorough": [{"match": "VerifH_c15_.*", "timeout": 3000, "shards": {"VerifH_c15_downconvert": 12},
                      "allow_unsupported": ["non-ASCII byte"]}],
        "bounds": {}, "outside": [], "assumptions": [],
    },
    "C17": {
        "level": "model_checking",
        "quick": [{"match": "VerifH_c17_.*", "timeout": 900, "shards": {"VerifH_c17_scan_step": 4, "VerifH_c17_full_iteration": 6}, "sharddepth": 8}],
        "thorough": [{"match": "VerifH_c17_.*", "timeout": 3000, "shards": {"VerifH_c17_scan_step": 6, "VerifH_c17_full_iteration": 8}, "sharddepth": 8}],
        "bounds": {}, "outside": [], "assumptions": [],
    },
    "C19": {
        "level": "model_checking",
        "quick": [{"match": "VerifH_c19_.*", "timeout": 900, "shards": {"VerifH_c19_l2_dirty": 10}, "sharddepth": 12,
                   "allow_unsupported": ["non-ASCII", "symbolic allocation size", "ParseFloat", "opaque"]}],
        "thorough": [{"match": "VerifH_c19_.*", "timeout": 3000, "shards": {"VerifH_c19_l2_dirty": 12}, "sharddepth": 12,
                   "allow_unsupported": ["non-ASCII", "symbolic allocation size", "ParseFloat", "opaque"]}],
        "bounds": {}, "outside": [], "assumptions": [],
    },
    "C18": {
        "level": "model_checking",
        "quick": [{"match": "VerifH_c18_.*", "timeout": 500,
                   "shards": {"VerifH_c18_bitcount": 3, "VerifH_c18_bitpos": 3, "VerifH_c18_bitfield_cmd": 3}}],
        "thorough": [{"match": "VerifH_c18_.*", "timeout": 3000,
                      "shards": {"VerifH_c18_bitcount": 4, "VerifH_c18_bitpos": 4, "VerifH_c18_bitfield_cmd": 6}}],
        "bounds": {},
        "outside": [],
        "assumptions": [],
    },
}
