#!/bin/bash
# Runs the repository's pinned stable baseline (68 tests) with the verif build tag OFF.
set -e
export GOFLAGS=-mod=mod GOPROXY=off GOSUMDB=off GOTOOLCHAIN=local
cd "${VERIF_REPO:-/repo}"
PAT="^($(paste -sd'|' /verif/baseline_tests.txt))\$"
exec go test -vet=off -count=1 -timeout 10m -run "$PAT" -json .
