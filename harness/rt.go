//go:build verif

package redisemu

// Harness runtime.  Under the symbolic executor (gosym) every function in
// this file whose name starts with "v" is intercepted; the bodies below are
// the *native* semantics used when a solver model is replayed against the
// real build (VERIF_REPLAY=<json>), so that nothing is reported unreplayed.

import (
	"bytes"
	"encoding/gob"
	"encoding/json"
	"fmt"
	"io"
	"os"
	"path/filepath"
	"runtime"
	"strconv"
	"sync"
	"sync/atomic"
	"time"
)

type vReplayFile struct {
	Harness string            `json:"harness"`
	Label   string            `json:"label"`
	Kind    string            `json:"kind"`
	Model   map[string]uint64 `json:"model"`
	Region  string            `json:"region"`
	Tier    string            `json:"tier"`
}

type vFailure struct {
	Label string
}

var (
	vReplay      *vReplayFile
	vNames       = map[string]int{}
	vFailures    []string
	vRegionsHit  = map[string]bool{}
	vObserved    = map[string]string{}
	vNowOverride *time.Time
)

func vLoadReplay() {
	vNames = map[string]int{}
	vFailures = nil
	vRegionsHit = map[string]bool{}
	vObserved = map[string]string{}
	vNowOverride = nil
	p := os.Getenv("VERIF_REPLAY")
	if p == "" {
		panic("VERIF_REPLAY not set")
	}
	b, err := os.ReadFile(p)
	if err != nil {
		panic(err)
	}
	vReplay = &vReplayFile{}
	if err := json.Unmarshal(b, vReplay); err != nil {
		panic(err)
	}
}

func vFresh(base string) string {
	vNames[base]++
	if n := vNames[base]; n > 1 {
		return fmt.Sprintf("%s#%d", base, n)
	}
	return base
}

func vGet(name string) uint64 {
	return vReplay.Model[vFresh(name)]
}

func vInt64(name string) int64   { return int64(vGet(name)) }
func vInt(name string) int       { return int(int64(vGet(name))) }
func vUint64(name string) uint64 { return vGet(name) }
func vUint32(name string) uint32 { return uint32(vGet(name)) }
func vInt32(name string) int32   { return int32(vGet(name)) }
func vByte(name string) byte     { return byte(vGet(name)) }
func vBool(name string) bool     { return vGet(name) != 0 }

func vBytes(name string, maxLen int) []byte {
	base := vFresh(name)
	n := int(vReplay.Model[base+".len"])
	if n > maxLen {
		n = maxLen
	}
	out := make([]byte, n)
	for i := range out {
		out[i] = byte(vReplay.Model[fmt.Sprintf("%s[%d]", base, i)])
	}
	return out
}

func vBytesN(name string, n int) []byte {
	base := vFresh(name)
	out := make([]byte, n)
	for i := range out {
		out[i] = byte(vReplay.Model[fmt.Sprintf("%s[%d]", base, i)])
	}
	return out
}

func vString(name string, maxLen int) string { return string(vBytes(name, maxLen)) }
func vStringN(name string, n int) string     { return string(vBytesN(name, n)) }

func vChoice(name string, n int) int {
	if n <= 1 {
		return 0
	}
	v := int(vGet(name))
	if v >= n {
		v = n - 1
	}
	return v
}

// vDecimal returns the canonical decimal text of an arbitrary int64.
func vDecimal(name string) string {
	return strconv.FormatInt(int64(vGet(name)), 10)
}

type vAssumeFailed struct{}

func vAssume(c bool) {
	if !c {
		panic(vAssumeFailed{})
	}
}

func vAssert(label string, c bool) {
	if !c {
		vFailures = append(vFailures, label)
	}
}

func vReach(label string, c bool) {}

// vRegion declares the input region of a recorded known finding.
func vRegion(label string, c bool) {
	if c {
		vRegionsHit[label] = true
	}
}

func vObserve(label string, v any) {
	vObserved[label] = fmt.Sprintf("%v", v)
}

func vCatch(f func()) (panicked bool, msg string) {
	defer func() {
		if r := recover(); r != nil {
			if _, ok := r.(vAssumeFailed); ok {
				panic(r)
			}
			panicked = true
			msg = fmt.Sprint(r)
		}
	}()
	f()
	return
}

// vTier is 0 for the quick tier and 1 for the thorough tier.
func vTier() int {
	if vReplay != nil && vReplay.Tier == "thorough" {
		return 1
	}
	return 0
}

func vSymbolic() bool        { return false }
func vIsConcrete(v any) bool { return true }
func vNote(s string)         {}
func vUnsupported(s string)  { panic(vAssumeFailed{}) }
func vRunPending() int       { return 0 }
func vPendingCount() int     { return 0 }
func vDropPending()          {}

// vSetNow fixes the clock seen by the package under test (natively through
// vTimeNow, which the replay overlay substitutes for time.Now()).
func vSetNow(sec, nsec int64) {
	t := time.Unix(sec, nsec)
	vNowOverride = &t
}

func vTimeNow() time.Time {
	if vNowOverride != nil {
		return *vNowOverride
	}
	return time.Now()
}

func vBytesEq(a, b []byte) bool { return string(a) == string(b) }
func vStrEq(a, b string) bool   { return a == b }
func vIte64(c bool, a, b int64) int64 {
	if c {
		return a
	}
	return b
}
func vAnd(a, b bool) bool     { return a && b }
func vOr(a, b bool) bool      { return a || b }
func vImplies(a, b bool) bool { return !a || b }

func vIsDecimal(s string) bool {
	n, err := strconv.ParseInt(s, 10, 64)
	return err == nil && strconv.FormatInt(n, 10) == s
}

func vDecimalOf(s string) int64 {
	n, _ := strconv.ParseInt(s, 10, 64)
	return n
}

// ---------------------------------------------------------------------
// file system for the persistence harness.  Under gosym these are
// intercepted by the engine's file-system/gob model; natively real files
// in a temporary directory are used, and the replay overlay routes the
// package's os.Create / os.Rename / os.Remove / gob.NewEncoder through the
// wrappers below so that "the process dies after n effects" can be replayed.

var (
	vFsDir      string
	vFsEffectsN int
	vFsCrashAt  = -1
)

func vFsReset() {
	if vFsDir != "" {
		os.RemoveAll(vFsDir)
	}
	vFsDir, _ = os.MkdirTemp("", "verif-fs")
	vFsEffectsN, vFsCrashAt = 0, -1
}

func vFsPath(name string) string { return filepath.Join(vFsDir, name) }

func vFsCrashAfter(n int) { vFsCrashAt, vFsEffectsN = n, 0 }
func vFsEffects() int     { return vFsEffectsN }

func vFsExists(name string) bool {
	_, err := os.Stat(name)
	return err == nil
}

func vFsEffect() bool {
	i := vFsEffectsN
	vFsEffectsN++
	return vFsCrashAt < 0 || i < vFsCrashAt
}

func vOsCreate(name string) (*os.File, error) {
	if vFsEffect() {
		return os.Create(name)
	}
	return os.OpenFile(os.DevNull, os.O_WRONLY, 0)
}

func vOsRename(from, to string) error {
	if _, err := os.Stat(from); err != nil {
		return err
	}
	if vFsEffect() {
		return os.Rename(from, to)
	}
	return nil
}

func vOsRemove(name string) error {
	if _, err := os.Stat(name); err != nil {
		return err
	}
	if vFsEffect() {
		return os.Remove(name)
	}
	return nil
}

type vEncoder struct{ enc *gob.Encoder }

func vGobNewEncoder(w io.Writer) *vEncoder { return &vEncoder{gob.NewEncoder(w)} }

func (e *vEncoder) Encode(v any) error {
	if vFsEffect() {
		return e.enc.Encode(v)
	}
	return nil
}

// ---------------------------------------------------------------------
// blocking commands: the strand under test runs on its own goroutine; the
// environment hook is called at the same schedule points as under gosym:
// at the entry of the lock-taking functions (vSched, inserted by the replay
// overlay) and whenever the strand is parked in its select.

var (
	vEnvFn    func(string) bool
	vInEnv    bool
	vWaiterID int64 = -1
	vWaitDone chan any
)

func vSetEnv(f func(string) bool) { vEnvFn = f }

func vGoID() int64 {
	var buf [64]byte
	n := runtime.Stack(buf[:], false)
	f := bytes.Fields(buf[:n])
	id, _ := strconv.ParseInt(string(f[1]), 10, 64)
	return id
}

func vSched(point string) {
	if vEnvFn != nil && !vInEnv && vGoID() == atomic.LoadInt64(&vWaiterID) {
		vInEnv = true
		vEnvFn(point)
		vInEnv = false
	}
}

// vRunBlockingOn runs f (a command of connection cs that may block) and
// reports whether it ended parked forever.
func vRunBlockingOn(cs *clientState, f func()) (parked bool) {
	vWaitDone = make(chan any, 1)
	go func() {
		atomic.StoreInt64(&vWaiterID, vGoID())
		defer func() { vWaitDone <- recover() }()
		f()
	}()
	stable := 0
	for {
		select {
		case r := <-vWaitDone:
			atomic.StoreInt64(&vWaiterID, -1)
			vEnvFn = nil
			if r != nil {
				panic(r)
			}
			return false
		case <-time.After(25 * time.Millisecond):
			if atomic.LoadInt32(&cs.blocked) == CS_CAPTURED && len(cs.unblockCh) == 0 {
				stable++
			} else {
				stable = 0
			}
			if stable >= 3 {
				stable = 0
				vInEnv = true
				progressed := vEnvFn != nil && vEnvFn("select")
				vInEnv = false
				if !progressed {
					vEnvFn = nil
					return true
				}
			}
		}
	}
}

// vReleaseWaiter lets a parked strand go at the end of a harness.
func vReleaseWaiter(cs *clientState) {
	if vWaitDone == nil {
		return
	}
	cs.unblock("", false)
	select {
	case <-vWaitDone:
	case <-time.After(2 * time.Second):
	}
	atomic.StoreInt64(&vWaiterID, -1)
}

// Timers of the package under test: the replay overlay routes time.NewTimer
// and time.Until in redisList.go through these wrappers, so that natively -
// as in the engine - a timer fires exactly when the harness says so and the
// duration it was armed with can be observed.
var (
	vTimerMu   sync.Mutex
	vTimers    []*time.Timer
	vTimerDurs []time.Duration
)

func vNewTimer(d time.Duration) *time.Timer {
	vTimerMu.Lock()
	defer vTimerMu.Unlock()
	t := time.NewTimer(time.Hour)
	if d <= 0 {
		t.Reset(0)
	}
	vTimers = append(vTimers, t)
	vTimerDurs = append(vTimerDurs, d)
	return t
}

func vTimeUntil(t time.Time) time.Duration { return t.Sub(vTimeNow()) }

// vFireTimer lets the pending timer of the strand expire.
func vFireTimer() bool {
	vTimerMu.Lock()
	n := len(vTimers)
	if n > 0 {
		vTimers[n-1].Reset(0)
	}
	vTimerMu.Unlock()
	time.Sleep(60 * time.Millisecond)
	return n > 0
}

// vTimerArmedNs is the duration the strand's latest timer was armed with.
func vTimerArmedNs() int64 {
	vTimerMu.Lock()
	defer vTimerMu.Unlock()
	if len(vTimerDurs) == 0 {
		return -1
	}
	return int64(vTimerDurs[len(vTimerDurs)-1])
}

func vActiveTimers() int { return 0 }

// ---------------------------------------------------------------------
// lock-set monitor: an engine facility.  Natively the same commands are run
// concurrently with writers of the same keys; the replay binary for these
// harnesses is built with -race, so a genuine unguarded access ends the
// process with the detector's report.

func vMonitorBegin(cs *clientState) { atomic.StoreInt64(&vLockAcq, 0) }

// vLockAcquired is called (replay overlay) right after the package under
// test has taken the database mutex.
var vLockAcq int64

func vLockAcquired() { atomic.AddInt64(&vLockAcq, 1) }

func vLockAcquisitions() int { return int(atomic.LoadInt64(&vLockAcq)) }

func vMonitorEnd() (unguarded, sections int, detail, shared string, guarded int) { return }

func vRaceWorkload(cs *clientState, kind int, args []string) {
	if os.Getenv("VERIF_RACE") == "" {
		return
	}
	other := vNewClientOn(cs.disp)
	third := vNewClientOn(cs.disp)
	writers := [][]string{{"EXPIRE", "k", "100"}, {"PERSIST", "k"}}
	switch kind {
	case preString:
		writers = append(writers, []string{"SETBIT", "k", "3", "1"}, []string{"SETRANGE", "k", "0", "z"}, []string{"APPEND", "k", "x"})
	case preList:
		writers = append(writers, []string{"LSET", "k", "0", "y"}, []string{"LPUSH", "k", "x"}, []string{"LPOP", "k"})
	case preHash:
		writers = append(writers, []string{"HSET", "k", "f1", "z"}, []string{"HSET", "k", "f9", "z"}, []string{"HDEL", "k", "f9"})
	case preSet:
		writers = append(writers, []string{"SADD", "k", "m9"}, []string{"SREM", "k", "m9"})
	default:
		writers = append(writers, []string{"SET", "k", "x"}, []string{"DEL", "k"})
	}
	done := make(chan struct{}, 2)
	go func() {
		for i := 0; i < 400; i++ {
			vCmd(other, writers[i%len(writers)]...)
		}
		done <- struct{}{}
	}()
	go func() {
		for i := 0; i < 400; i++ {
			vCmd(third, args...)
		}
		done <- struct{}{}
	}()
	for i := 0; i < 400; i++ {
		vCmd(cs, args...)
	}
	<-done
	<-done
}

func vFieldLogBegin(label string, own *clientState) {}
func vFieldLogEnd()                                 {}

// vRacePair runs command a on c1 and command b on c2 concurrently.
func vRacePair(disp *cmdDispatcher, c1, c2 *clientState, a, b int, am, bm bool) {
	n := len(vSessionCommands)
	if a == n+1 || b == n+1 {
		// the saver writes snapshot files: into a scratch directory
		dir, _ := os.MkdirTemp("", "verif-saver")
		defer os.RemoveAll(dir)
		disp.dss.basePath = filepath.Join(dir, "data")
	}
	run := func(c *clientState, i int, inMulti bool, done chan struct{}) {
		defer func() { recover(); done <- struct{}{} }()
		for k := 0; k < 300; k++ {
			if i < n {
				if inMulti && vSessionCommands[i][0] != "MULTI" {
					// queued in a transaction and run by EXEC
					vCmd(c, "MULTI")
					vSessionRun(c, i)
					if c.cmdQueue != nil {
						vCmd(c, "EXEC")
					}
					continue
				}
				if vSessionCommands[i][0] == "SELECT" {
					// every database is created once: go through all of them
					vCmd(c, "SELECT", strconv.Itoa(k%15+1))
					continue
				}
				vSessionRun(c, i)
				if vSessionCommands[i][0] == "MULTI" {
					vCmd(c, "DISCARD")
				}
			} else if i == n {
				x := vNewClientOn(disp)
				x.unregister()
			} else {
				// the periodic saver
				disp.dss.save(vLane)
			}
		}
	}
	done := make(chan struct{}, 2)
	go run(c1, a, am, done)
	go run(c2, b, bm, done)
	<-done
	<-done
}

// vDeadlockPair runs two command loops concurrently and reports whether
// both finished; a loop that stops making progress for 5 s is a deadlock.
func vDeadlockPair(disp *cmdDispatcher, c1, c2 *clientState, a, b int, am, bm bool) bool {
	var progress [2]int64
	run := func(c *clientState, i int, inMulti bool, slot int, done chan struct{}) {
		defer func() { recover(); done <- struct{}{} }()
		for k := 0; k < 1500; k++ {
			if inMulti && vSessionCommands[i][0] != "MULTI" {
				vCmd(c, "MULTI")
				vSessionRun(c, i)
				if c.cmdQueue != nil {
					vCmd(c, "EXEC")
				}
			} else {
				vSessionRun(c, i)
				if vSessionCommands[i][0] == "MULTI" {
					vCmd(c, "DISCARD")
				}
			}
			atomic.AddInt64(&progress[slot], 1)
		}
	}
	done := make(chan struct{}, 2)
	go run(c1, a, am, 0, done)
	go run(c2, b, bm, 1, done)
	finished := 0
	last := [2]int64{-1, -1}
	for finished < 2 {
		select {
		case <-done:
			finished++
		case <-time.After(5 * time.Second):
			now := [2]int64{atomic.LoadInt64(&progress[0]), atomic.LoadInt64(&progress[1])}
			if now == last {
				return false
			}
			last = now
		}
	}
	return true
}
