//go:build verif

package redisemu

// C16 — data-race freedom of per-connection and global state.  Every
// session / introspection command is run under the field-level lock-set
// log (engine); the check pairs accesses to the same field with disjoint
// lock sets (at least one write) and confirms each pair by running the two
// commands concurrently on two connections under the Go race detector.

var vSessionCommands = [][]string{
	{"CLIENT", "SETNAME", "alice"}, {"CLIENT", "GETNAME"}, {"CLIENT", "LIST"}, {"CLIENT", "INFO"}, {"CLIENT", "ID"},
	{"CLIENT", "NO-EVICT", "on"}, {"CLIENT", "SETINFO", "LIB-NAME", "x"}, {"HELLO", "3"}, {"HELLO"}, {"SELECT", "1"},
	{"MULTI"}, {"EXEC"}, {"DISCARD"}, {"WATCH", "k"}, {"UNWATCH"}, {"INFO"}, {"DBSIZE"}, {"FLUSHDB"}, {"FLUSHALL"},
	{"PING"}, {"SET", "k", "v"}, {"GET", "k"}, {"COMMAND", "COUNT"}, {"CLIENT", "KILL", "ID", "999"}, {"CLIENT", "UNBLOCK", "999"},
	{"COPY", "k", "k9", "DB", "1", "REPLACE"}, {"COPY", "k", "k9", "DB", "0", "REPLACE"},
	// programs (see vSessionRun): switch to another database, write there, switch back
	{"@VISIT", "1", "0"}, {"@VISIT", "0", "1"},
}

// vSessionRun issues entry i of vSessionCommands on c; entries starting with
// '@' are short programs.
func vSessionRun(c *clientState, i int) {
	t := vSessionCommands[i]
	if t[0] == "@VISIT" {
		vCmd(c, "SELECT", t[1])
		vCmd(c, "SET", "k", "v")
		vCmd(c, "SELECT", t[2])
		return
	}
	vCmd(c, t...)
}

// vSessionMirror: for a command that reaches from one database into
// another, the command that does the same in the opposite direction when it
// is run by a connection working in database 1.
var vSessionMirror = map[int]int{25: 26, 27: 28}

func vSessionLabel(i int) string { return "cmd" + vItoa(i) }

// VerifH_c16_session: log the lock sets of every field access of each
// session command (in normal mode and inside MULTI).
func VerifH_c16_session() {
	VerifSetup()
	disp := vNewServer()
	cs := vNewClientOn(disp)
	second := vNewClientOn(disp) // a second connection exists, working in another database
	vCmd(second, "SELECT", "1")
	vCmd(second, "SET", "k", "other")
	i := vChoice("cmd", len(vSessionCommands))
	inMulti := vBool("in-multi") && vSessionCommands[i][0] != "MULTI"
	if inMulti {
		vCmd(cs, "MULTI")
	}
	label := vSessionLabel(i)
	if inMulti {
		label += "m" // the command queued in a transaction and run by EXEC
	}
	vFieldLogBegin(label, cs)
	panicked, _ := vCatch(func() {
		vSessionRun(cs, i)
		if inMulti && cs.cmdQueue != nil {
			// the queued command runs inside EXEC, under the transaction's
			// ownership of the database
			vCmd(cs, "EXEC")
		}
	})
	vFieldLogEnd()
	vAssert("session-command-no-panic", !panicked)
}

// VerifH_c16_lifecycle: connection set-up and tear-down.
func VerifH_c16_lifecycle() {
	VerifSetup()
	disp := vNewServer()
	vNewClientOn(disp)
	// initialisation of a connection's own state before it is published is
	// not logged (nobody else can reach it); the publication and the
	// tear-down are
	cs := vNewClientOn(disp)
	vFieldLogBegin("disconnect", cs)
	cs.unregister()
	vFieldLogEnd()
	// connection set-up: what it does to shared state (the client table, the id
	// counter, the statistics) is logged; its own fields are not yet shared
	vFieldLogBegin("connect", nil)
	vNewClientOn(disp)
	vFieldLogEnd()
}

// VerifH_c16_saver: the periodic saver (test-server.go: dss.save once a
// second, on its own goroutine) as one more actor of the lock-set analysis.
func VerifH_c16_saver() {
	VerifSetup()
	vFsReset()
	disp := vNewServer()
	disp.dss.basePath = vFsPath("data") // snapshot files go to the model / a scratch directory
	cs := vNewClientOn(disp)
	vCmd(cs, "SET", "k", "v")
	vCmd(cs, "SELECT", "1")
	vCmd(cs, "SET", "k", "w")
	vFieldLogBegin("saver", nil)
	disp.dss.save(vLane)
	vFieldLogEnd()
}

// VerifH_c16_pair: native confirmation of one candidate pair (a, b are
// indexes into vSessionCommands, or len = connect/disconnect): the two are
// run concurrently in loops on two connections; under -race a genuine race
// ends the process with the detector's report.  (Under gosym this harness
// only checks that both commands run.)
func VerifH_c16_pair() {
	VerifSetup()
	n := len(vSessionCommands)
	a, b := vChoice("a", n+2), vChoice("b", n+2) // n: connect/disconnect, n+1: the saver
	am, bm := vChoice("am", 2) == 1, vChoice("bm", 2) == 1
	disp := vNewServer()
	c1 := vNewClientOn(disp)
	c2 := vNewClientOn(disp)
	if vChoice("splitdb", 2) == 1 {
		// the two connections work in different databases: no database lock
		// orders their commands
		vCmd(c2, "SELECT", "1")
	}
	if !vSymbolic() {
		vRacePair(disp, c1, c2, a, b, am, bm)
		return
	}
	if a < n {
		vCatch(func() { vSessionRun(c1, a) })
	}
	if b < n {
		vCatch(func() { vSessionRun(c2, b) })
	}
}

// VerifH_c13_deadlock_pair: native confirmation of a lock-order cycle found
// by the engine (the lock-order log of VerifH_c16_session): the two commands
// (indexes into vSessionCommands, plain or queued-and-EXECuted) run in loops
// on two connections; if neither loop makes progress for several seconds
// the emulator has deadlocked.  (Under gosym both commands just run once.)
func VerifH_c13_deadlock_pair() {
	VerifSetup()
	n := len(vSessionCommands)
	a, b := vChoice("a", n), vChoice("b", n)
	am, bm := vChoice("am", 2) == 1, vChoice("bm", 2) == 1
	disp := vNewServer()
	c1 := vNewClientOn(disp)
	c2 := vNewClientOn(disp)
	if vChoice("splitdb", 2) == 1 {
		vCmd(c2, "SELECT", "1")
	}
	if !vSymbolic() {
		vAssert("both-command-loops-finish", vDeadlockPair(disp, c1, c2, a, b, am, bm))
		return
	}
	vCatch(func() { vSessionRun(c1, a) })
	vCatch(func() { vSessionRun(c2, b) })
}
