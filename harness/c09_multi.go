//go:build verif

package redisemu

// C09 — MULTI/EXEC/DISCARD/WATCH state machine (multi.c) and C10 — WATCH.

const (
	stMulti = iota
	stExec
	stDiscard
	stWatch
	stUnwatch
	stSet      // valid write: SET k <v>
	stIncrList // runtime error: INCR on a list key
	stUnknown  // rejected when queued: unknown command
	stArity    // rejected when queued: GET with two arguments
	stBlock    // BLPOP on an empty list (only generated inside MULTI)
	stNumSteps
)

type vTxModel struct {
	watching bool // k is watched
	touched  bool // k was written since it was watched
	inMulti  bool
	dirty    bool
	queue    []int
	qvals    []string
	kval     string // value of key k ("" = missing)
	kset     bool
}

func vIsQueued(r respValue) bool {
	s, ok := r.data.(respSimpleString)
	return ok && s == "QUEUED"
}

// VerifH_c09_programs: symbolic transaction programs on one connection,
// checked step by step against the multi.c state machine; an observer
// connection reads the key between steps.
func VerifH_c09_programs() {
	VerifSetup()
	disp := vNewServer()
	cs := vNewClientOn(disp)
	obs := vNewClientOn(disp)
	vCmd(cs, "RPUSH", "l", "x") // a list for the runtime error
	m := &vTxModel{}
	steps := 4 + vTier()
	n := 1 + vChoice("len", steps)
	for i := 0; i < n; i++ {
		st := vChoice("step", stNumSteps)
		if st == stBlock && !m.inMulti {
			st = stSet
		}
		val := ""
		ended := false // a transaction ended in this step (EXEC ran/aborted, DISCARD)
		var r respValue
		switch st {
		case stMulti:
			r = vCmd(cs, "MULTI")
			if m.inMulti {
				vAssert("nested-multi-error", vIsErr(r))
			} else {
				vAssert("multi-ok", vIsOK(r))
				m.inMulti = true
			}
		case stExec:
			r = vCmd(cs, "EXEC")
			if !m.inMulti {
				vAssert("exec-without-multi-error", vIsErr(r))
			} else if m.dirty {
				vAssert("exec-after-queue-error-aborts", vIsErr(r))
				m.inMulti, m.dirty, m.queue, m.qvals = false, false, nil, nil
				m.watching, m.touched = false, false
				ended = true
			} else if m.watching && m.touched {
				vAssert("exec-aborted-by-watch-null", vIsNil(r))
				m.inMulti, m.dirty, m.queue, m.qvals = false, false, nil, nil
				m.watching, m.touched = false, false
				ended = true
			} else {
				ended = true
				m.watching, m.touched = false, false
				a, ok := vArrayOf(r)
				vAssert("exec-one-reply-per-command", ok && len(a) == len(m.queue))
				if ok && len(a) == len(m.queue) {
					for j, q := range m.queue {
						switch q {
						case stSet:
							vAssert("exec-set-ok", vIsOK(a[j]))
							m.kval, m.kset = m.qvals[j], true
						case stIncrList:
							vAssert("exec-runtime-error-in-place", vIsErr(a[j]))
						case stBlock:
							vAssert("exec-blocking-command-does-not-block", vIsNil(a[j]))
						}
					}
				}
				m.inMulti, m.dirty, m.queue, m.qvals = false, false, nil, nil
			}
		case stDiscard:
			r = vCmd(cs, "DISCARD")
			if !m.inMulti {
				vAssert("discard-without-multi-error", vIsErr(r))
			} else {
				vAssert("discard-ok", vIsOK(r))
				m.inMulti, m.dirty, m.queue, m.qvals = false, false, nil, nil
				m.watching, m.touched = false, false
				ended = true
			}
		case stWatch:
			r = vCmd(cs, "WATCH", "k")
			if m.inMulti {
				vAssert("watch-inside-multi-error", vIsErr(r))
			} else {
				vAssert("watch-ok", vIsOK(r))
				if !m.watching {
					m.watching, m.touched = true, false
				}
			}
		case stUnwatch:
			r = vCmd(cs, "UNWATCH")
			if m.inMulti {
				vAssert("unwatch-queued", vIsQueued(r))
				m.queue, m.qvals = append(m.queue, stUnwatch), append(m.qvals, "")
			} else {
				vAssert("unwatch-ok", vIsOK(r))
				m.watching, m.touched = false, false
			}
		case stSet, stIncrList, stBlock:
			switch st {
			case stSet:
				val = vStringN("v", 1)
				r = vCmd(cs, "SET", "k", val)
			case stIncrList:
				r = vCmd(cs, "INCR", "l")
			case stBlock:
				r = vCmd(cs, "BLPOP", "empty", "0")
			}
			if m.inMulti {
				vAssert("queued-reply", vIsQueued(r))
				m.queue, m.qvals = append(m.queue, st), append(m.qvals, val)
			} else if st == stSet {
				vAssert("set-ok", vIsOK(r))
				m.kval, m.kset = val, true
				m.touched = true
			} else {
				vAssert("incr-list-error", vIsErr(r))
			}
		case stUnknown, stArity:
			if st == stUnknown {
				r = vCmd(cs, "NOSUCHCMD", "a")
			} else {
				r = vCmd(cs, "GET", "k", "extra")
			}
			vAssert("rejected-command-error", vIsErr(r))
			if m.inMulti {
				m.dirty = true
			}
		}
		// mode and isolation after every step
		vAssert("queue-exists-iff-in-multi", (cs.cmdQueue != nil) == m.inMulti)
		g := vCmd(obs, "GET", "k")
		if m.kset {
			vAssert("observer-sees-only-committed-state", vIsBulk(g, m.kval))
		} else {
			vAssert("observer-sees-no-uncommitted-write", vIsNil(g))
		}
		if ended {
			vAssert("watches-cleared-after-exec-or-discard", len(cs.watches) == 0)
		}
	}
	// whatever happened, outside MULTI the next command executes immediately
	// and a fresh transaction on the same connection runs normally (nothing
	// from an earlier, finished transaction may linger)
	if !m.inMulti {
		r := vCmd(cs, "SET", "after", "1")
		vAssert("normal-mode-after-transaction", vIsOK(r))
		if !m.watching {
			vAssert("probe-multi-ok", vIsOK(vCmd(cs, "MULTI")))
			vAssert("probe-queued", vIsQueued(vCmd(cs, "SET", "probe", "1")))
			a, ok := vArrayOf(vCmd(cs, "EXEC"))
			vAssert("probe-transaction-runs", ok && len(a) == 1 && vIsOK(a[0]))
			vAssert("probe-effect", vIsBulk(vCmd(obs, "GET", "probe"), "1"))
		}
	}
}

// ---------------------------------------------------------------------
// C10

type vModifier struct {
	args     []string
	modifies bool // the watched key k counts as modified
}

// vWatchCases: commands issued between WATCH k and EXEC.  k starts as the
// given type; each entry says whether Redis counts it as a modification of k.
func vWatchCases(kind int, v string) []vModifier {
	common := []vModifier{
		{[]string{"GET", "other"}, false},
		{[]string{"SET", "other", v}, false},
		{[]string{"EXISTS", "k"}, false},
		{[]string{"TYPE", "k"}, false},
		{[]string{"TTL", "k"}, false},
		{[]string{"DEL", "k"}, true},
		{[]string{"UNLINK", "k"}, true},
		{[]string{"EXPIRE", "k", "100"}, true},
		{[]string{"RENAME", "k", "k2"}, true},
		{[]string{"RENAME", "src", "k"}, true},
		{[]string{"COPY", "src", "k", "REPLACE"}, true},
		{[]string{"FLUSHDB"}, true},
		{[]string{"FLUSHALL"}, true},
		{[]string{"SET", "k", v}, true},
	}
	switch kind {
	case preString:
		return append(common,
			vModifier{[]string{"GET", "k"}, false},
			vModifier{[]string{"STRLEN", "k"}, false},
			vModifier{[]string{"LPUSH", "k", v}, false}, // WRONGTYPE: failed, not a modification
			vModifier{[]string{"APPEND", "k", v}, true},
			vModifier{[]string{"INCR", "k"}, true},
			vModifier{[]string{"SETRANGE", "k", "0", "z"}, true},
			vModifier{[]string{"SETBIT", "k", "1", "1"}, true},
			vModifier{[]string{"GETDEL", "k"}, true},
			vModifier{[]string{"GETEX", "k", "EX", "100"}, true},
		)
	case preList:
		return append(common,
			vModifier{[]string{"LRANGE", "k", "0", "-1"}, false},
			vModifier{[]string{"INCR", "k"}, false},          // WRONGTYPE
			vModifier{[]string{"LSET", "k", "99", v}, false}, // index out of range: failed
			vModifier{[]string{"LPUSH", "k", v}, true},
			vModifier{[]string{"RPOP", "k"}, true},
			vModifier{[]string{"LSET", "k", "0", v}, true},
			vModifier{[]string{"LINSERT", "k", "BEFORE", "e1", v}, true},
			vModifier{[]string{"LREM", "k", "0", "e1"}, true},
			vModifier{[]string{"LTRIM", "k", "0", "0"}, true},
			vModifier{[]string{"LMOVE", "k", "k", "LEFT", "RIGHT"}, true},
		)
	case preHash:
		return append(common,
			vModifier{[]string{"HGET", "k", "f1"}, false},
			vModifier{[]string{"HSET", "k", "f1", v}, true},
			vModifier{[]string{"HSET", "k", "f9", v}, true},
			vModifier{[]string{"HDEL", "k", "f1"}, true},
			vModifier{[]string{"HINCRBY", "k", "n", "1"}, true},
			vModifier{[]string{"HDEL", "k", "nofield"}, false},
		)
	case preSet:
		return append(common,
			vModifier{[]string{"SMEMBERS", "k"}, false},
			vModifier{[]string{"SADD", "k", "m9"}, true},
			vModifier{[]string{"SREM", "k", "m1"}, true},
			vModifier{[]string{"SMOVE", "k", "k2", "m1"}, true},
			vModifier{[]string{"SREM", "k", "nomember"}, false},
		)
	default: // missing key
		return append(common[:5],
			vModifier{[]string{"SET", "k", v}, true},
			vModifier{[]string{"LPUSH", "k", v}, true},
			vModifier{[]string{"HSET", "k", "f", v}, true},
			vModifier{[]string{"SADD", "k", v}, true},
			vModifier{[]string{"DEL", "k"}, false},
			vModifier{[]string{"GET", "k"}, false},
			vModifier{[]string{"RENAME", "src", "k"}, true},
			vModifier{[]string{"FLUSHDB"}, false},
		)
	}
}

// VerifH_c10_watch: WATCH k; one command by this or another connection at a
// symbolic position (before MULTI / between MULTI and EXEC for the other
// connection); MULTI; SET marker; EXEC.  EXEC must abort iff k was modified.
func VerifH_c10_watch() {
	VerifSetup()
	disp := vNewServer()
	cs := vNewClientOn(disp)
	other := vNewClientOn(disp)
	kind := vChoice("kind", 5)
	v := vStringN("v", 1)
	vSeed(cs, "k", kind, "1")
	vCmd(cs, "SET", "src", "s")
	cases := vWatchCases(kind, v)
	c := cases[vChoice("case", len(cases))]
	byOther := vBool("by-other-connection")
	afterMulti := byOther && vBool("after-multi")
	vAssert("watch-ok", vIsOK(vCmd(cs, "WATCH", "k")))
	who := cs
	if byOther {
		who = other
	}
	if !afterMulti {
		vCmd(who, c.args...)
	}
	vAssert("multi-ok", vIsOK(vCmd(cs, "MULTI")))
	if afterMulti {
		vCmd(who, c.args...)
	}
	vAssert("queued", vIsQueued(vCmd(cs, "SET", "marker", "1")))
	r := vCmd(cs, "EXEC")
	ran := vIsInt(vCmd(other, "EXISTS", "marker"), 1)
	if c.modifies {
		vAssert("exec-aborts-when-watched-key-modified", vIsNil(r))
		vAssert("aborted-exec-has-no-effect", !ran)
	} else {
		a, ok := vArrayOf(r)
		vAssert("exec-runs-when-watched-key-untouched", ok && len(a) == 1)
		vAssert("exec-effect-visible", ran)
	}
	// transaction state is reset either way
	vAssert("queue-cleared-after-exec", cs.cmdQueue == nil)
	vAssert("watches-cleared-after-exec", len(cs.watches) == 0)
	vAssert("next-command-runs-normally", vIsOK(vCmd(cs, "SET", "after", "1")))
}

// VerifH_c10_unwatch: UNWATCH / DISCARD forget the watched keys.
func VerifH_c10_unwatch() {
	VerifSetup()
	disp := vNewServer()
	cs := vNewClientOn(disp)
	other := vNewClientOn(disp)
	vCmd(cs, "SET", "k", "1")
	vCmd(cs, "WATCH", "k")
	if vBool("via-discard") {
		vCmd(cs, "MULTI")
		vCmd(cs, "DISCARD")
	} else {
		vCmd(cs, "UNWATCH")
	}
	vCmd(other, "SET", "k", "2")
	vCmd(cs, "MULTI")
	vCmd(cs, "SET", "marker", "1")
	r := vCmd(cs, "EXEC")
	a, ok := vArrayOf(r)
	vAssert("exec-runs-after-unwatch", ok && len(a) == 1)
}

// VerifH_c10_rewatch: several WATCH commands accumulate; watching a key
// again (alone or together with others) after it was changed does not hide
// the change; a change to any one of several watched keys aborts; keys in
// another database are told apart.
func VerifH_c10_rewatch() {
	VerifSetup()
	disp := vNewServer()
	cs := vNewClientOn(disp)
	other := vNewClientOn(disp)
	vCmd(cs, "SET", "k", "1")
	vCmd(cs, "SET", "j", "1")
	vAssert("watch-two-keys-ok", vIsOK(vCmd(cs, "WATCH", "k", "j")))
	changed := false
	switch vChoice("change", 4) {
	case 0:
		vCmd(other, "SET", "k", "2")
		changed = true
	case 1:
		vCmd(other, "APPEND", "j", "x")
		changed = true
	case 2:
		// the same key name in another database is another key
		vCmd(other, "SELECT", "1")
		vCmd(other, "SET", "k", "2")
	case 3:
		vCmd(other, "GET", "k")
	}
	switch vChoice("again", 3) {
	case 1:
		vAssert("rewatch-ok", vIsOK(vCmd(cs, "WATCH", "k")))
	case 2:
		vAssert("rewatch-more-ok", vIsOK(vCmd(cs, "WATCH", "j", "k", "z")))
	}
	vCmd(cs, "MULTI")
	vCmd(cs, "SET", "marker", "1")
	r := vCmd(cs, "EXEC")
	if changed {
		vAssert("rewatch-does-not-hide-a-change", vIsNil(r))
		vAssert("aborted-transaction-has-no-effect", vIsNil(vCmd(cs, "GET", "marker")))
	} else {
		a, ok := vArrayOf(r)
		vAssert("unchanged-watched-keys-let-exec-run", ok && len(a) == 1)
	}
}

// VerifH_c10_expiry: a watched key whose deadline passes between WATCH and
// EXEC counts as modified; a key that was already expired when watched and
// is still missing does not.
func VerifH_c10_expiry() {
	VerifSetup()
	vSetNow(vT0, 0)
	disp := vNewServer()
	cs := vNewClientOn(disp)
	kind := 1 + vChoice("kind", 4)
	vSeed(cs, "k", kind, "v")
	vCmd(cs, "EXPIRE", "k", "100")
	expiredBeforeWatch := vBool("expired-before-watch")
	if expiredBeforeWatch {
		vSetNow(vT0+200, 0)
	}
	vAssert("watch-ok", vIsOK(vCmd(cs, "WATCH", "k")))
	if !expiredBeforeWatch {
		vSetNow(vT0+200, 0)
	}
	vCmd(cs, "MULTI")
	vCmd(cs, "SET", "marker", "1")
	r := vCmd(cs, "EXEC")
	if expiredBeforeWatch {
		a, ok := vArrayOf(r)
		vAssert("exec-runs-when-key-was-already-gone", ok && len(a) == 1)
	} else {
		vAssert("exec-aborts-when-watched-key-expired", vIsNil(r))
		vAssert("aborted-exec-has-no-effect", vIsInt(vCmd(cs, "EXISTS", "marker"), 0))
	}
}
