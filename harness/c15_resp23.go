//go:build verif

package redisemu

// C15 — RESP2 and RESP3 carry the same information; HELLO switches the
// protocol per connection.

import "math/big"

// vIsResp2Tree: only RESP2 types occur anywhere in the value.
func vIsResp2Tree(v respValue) bool {
	switch x := v.data.(type) {
	case nil, respSimpleString, respErrorString, respInt, respBulkString:
		return true
	case respArray:
		for _, e := range x {
			if !vIsResp2Tree(e) {
				return false
			}
		}
		return true
	}
	return false
}

// vIsText: a RESP2 string (bulk or simple) with exactly this text.
func vIsText(v respValue, s string) bool {
	switch x := v.data.(type) {
	case respBulkString:
		return vStrEq(string(x), s)
	case respSimpleString:
		return vStrEq(string(x), s)
	}
	return false
}

type vTree struct {
	v    respValue
	want func(got respValue) bool // canonical down-conversion check
}

func vAlways(got respValue) bool { return true }

// vSymTree3 builds a RESP3 reply tree with symbolic leaves together with the
// predicate its canonical RESP2 down-conversion must satisfy.
func vSymTree3(name string, depth int) vTree {
	nk := 9
	if depth > 0 {
		nk = 13
	}
	switch vChoice(name+".kind", nk) {
	case 0:
		s := vString(name+".s", 2)
		return vTree{respValue{data: respBulkString(s)}, func(g respValue) bool { return vIsBulk(g, s) }}
	case 1:
		i := vInt64(name + ".i")
		vAssume(i > -1000 && i < 1000) // the value is serialised to digits below
		return vTree{respValue{data: respInt(i)}, func(g respValue) bool { return vIsInt(g, i) }}
	case 2:
		return vTree{respValue{data: nil}, vIsNil}
	case 3:
		return vTree{respValue{data: respNull{}}, func(g respValue) bool { return g.data == nil }}
	case 4:
		b := vBool(name + ".b")
		return vTree{respValue{data: respBool(b)}, func(g respValue) bool {
			if b {
				return vIsInt(g, 1)
			}
			return vIsInt(g, 0)
		}}
	case 5:
		// the RESP2 form of a double is the text the RESP3 serializer writes for it
		// (fixed notation also for tiny and huge magnitudes)
		d := respDouble([]float64{1.5, 0.00001, 1e21, -2.5e-7, 3, 1e6, 123456789.125}[vChoice(name+".d", 7)])
		txt := d.String()
		return vTree{respValue{data: d}, func(g respValue) bool { return vIsText(g, txt) }}
	case 6:
		t := vString(name+".t", 2)
		return vTree{respValue{data: respVerbatimString{format: "txt", text: t}}, func(g respValue) bool { return vIsText(g, t) }}
	case 7:
		e := "ERR " + vString(name+".e", 1)
		return vTree{respValue{data: respBlobError(e)}, func(g respValue) bool {
			x, ok := g.data.(respErrorString)
			return ok && vStrEq(string(x), e)
		}}
	case 8:
		return vTree{respValue{data: respBigNumber{bn: big.NewInt(12345)}}, func(g respValue) bool { return vIsText(g, "12345") }}
	case 9: // array
		n := vChoice(name+".n", 3)
		if depth >= 2 {
			// two levels of nesting: one spine (the breadth is covered one level down)
			n = vChoice(name+".n1", 2)
		}
		kids := make([]vTree, n)
		a := make(respArray, n)
		for i := range kids {
			kids[i] = vSymTree3(name+".a", depth-1)
			a[i] = kids[i].v
		}
		return vTree{respValue{data: a}, func(g respValue) bool {
			ga, ok := g.data.(respArray)
			if !ok || len(ga) != n {
				return false
			}
			okAll := true
			for i := range kids {
				okAll = vAnd(okAll, kids[i].want(ga[i]))
			}
			return okAll
		}}
	case 10: // map with bulk-string keys -> flat key/value array in order
		n := 1
		if depth < 2 {
			n = 1 + vChoice(name+".n", 2)
		}
		m := newRespMap()
		keys := []string{"ka", "kb"}[:n]
		kids := make([]vTree, n)
		for i := range kids {
			kids[i] = vSymTree3(name+".m", depth-1)
			m.set(respValue{data: respBulkString(keys[i])}, kids[i].v)
		}
		return vTree{respValue{data: m}, func(g respValue) bool {
			ga, ok := g.data.(respArray)
			if !ok || len(ga) != 2*n {
				return false
			}
			okAll := true
			for i := range kids {
				okAll = vAnd(okAll, vAnd(vIsText(ga[2*i], keys[i]), kids[i].want(ga[2*i+1])))
			}
			return okAll
		}}
	case 11: // list of pairs -> flat array
		var k vTree
		if depth >= 2 {
			k = vTree{respValue{data: respBulkString("pk")}, func(g respValue) bool { return vIsBulk(g, "pk") }}
		} else {
			k = vSymTree3(name+".pk", 0)
		}
		w := vSymTree3(name+".pv", depth-1)
		p := respPairs{respPair{key: k.v, value: w.v}}
		return vTree{respValue{data: p}, func(g respValue) bool {
			ga, ok := g.data.(respArray)
			return ok && len(ga) == 2 && vAnd(k.want(ga[0]), w.want(ga[1]))
		}}
	default: // set -> array (any order); one or two distinct bulk members
		s := respSet{}
		m1 := vString(name+".s1", 1)
		s[respValue{data: respBulkString("x" + m1)}] = struct{}{}
		two := vBool(name + ".two")
		if two {
			s[respValue{data: respInt(7)}] = struct{}{}
		}
		return vTree{respValue{data: s}, func(g respValue) bool {
			ga, ok := g.data.(respArray)
			if !ok || len(ga) != len(s) {
				return false
			}
			f1, f2 := false, !two
			for _, e := range ga {
				f1 = vOr(f1, vIsBulk(e, "x"+m1))
				if two {
					f2 = vOr(f2, vIsInt(e, 7))
				}
			}
			return vAnd(f1, f2)
		}}
	}
}

// VerifH_c15_downconvert: resp3To2 emits RESP2 types only and equals the
// canonical down-conversion, for bounded trees of every RESP3 kind.
func VerifH_c15_downconvert() {
	VerifSetup()
	t := vSymTree3("t", 2)
	var got respValue
	panicked, msg := vCatch(func() { got = resp3To2(t.v) })
	vAssert("resp3to2-no-panic", !panicked)
	if panicked {
		vNote(msg)
		return
	}
	vAssert("resp3to2-only-resp2-types", vIsResp2Tree(got))
	vAssert("resp3to2-canonical", t.want(got))
	// and what is emitted is one RESP2 frame
	vOneFrame("resp3to2", got.serialize())
}

// VerifH_c15_hello: HELLO [protover] for all int64 versions.
func VerifH_c15_hello() {
	VerifSetup()
	disp := vNewServer()
	a := vNewClientOn(disp)
	b := vNewClientOn(disp)
	if vBool("a-starts-resp3") {
		vCmd(a, "HELLO", "3")
		vAssert("hello3-switches", a.respVersion == 3)
	}
	before := a.respVersion
	var r respValue
	hasVer := vBool("hasver")
	var ver int64
	if hasVer {
		s := vDecimal("ver")
		ver = vDecimalOf(s)
		r = vCmd(a, "HELLO", s)
	} else {
		r = vCmd(a, "HELLO")
	}
	if hasVer && ver != 2 && ver != 3 {
		vAssert("hello-unsupported-version-error", vIsErr(r))
		vAssert("hello-unsupported-version-unchanged", a.respVersion == before)
	} else {
		want := before
		if hasVer {
			want = int(ver)
		}
		vAssert("hello-version", a.respVersion == want)
		vAssert("hello-not-error", !vIsErr(r))
		if want == 2 {
			vAssert("hello-reply-resp2-types", vIsResp2Tree(r))
		}
	}
	vAssert("hello-other-connection-untouched", b.respVersion == 2)
	vReach("hello-back-to-2", hasVer && ver == 2 && before == 3)
}

// vBuildSample: a small fixed data set with symbolic values.
func vBuildSample(cs *clientState, v1, v2 string) {
	vCmd(cs, "HSET", "h", "f1", v1, "f2", v2)
	vCmd(cs, "HSET", "h1", "f1", v1)
	vCmd(cs, "SADD", "s", "m1", "m2")
	vCmd(cs, "RPUSH", "l", v1, v2, v1)
	vCmd(cs, "SET", "k", v1)
}

// refDown: canonical down-conversion of the reply shapes commands produce.
func refDownEq(r3, r2 respValue) bool {
	switch x := r3.data.(type) {
	case respMap:
		a, ok := r2.data.(respArray)
		if !ok || len(a) != 2*len(x.order) {
			return false
		}
		okAll := true
		for i, k := range x.order {
			ks, _ := k.toString()
			okAll = vAnd(okAll, vAnd(vIsText(a[2*i], ks), refDownEq(x.mustGet(k), a[2*i+1])))
		}
		return okAll
	case respPairs:
		a, ok := r2.data.(respArray)
		if !ok || len(a) != 2*len(x) {
			return false
		}
		okAll := true
		for i, p := range x {
			okAll = vAnd(okAll, vAnd(refDownEq(p.key, a[2*i]), refDownEq(p.value, a[2*i+1])))
		}
		return okAll
	case respSet:
		a, ok := r2.data.(respArray)
		if !ok || len(a) != len(x) {
			return false
		}
		okAll := true
		for m := range x {
			found := false
			for _, e := range a {
				found = vOr(found, refDownEq(m, e))
			}
			okAll = vAnd(okAll, found)
		}
		return okAll
	case respArray:
		a, ok := r2.data.(respArray)
		if !ok || len(a) != len(x) {
			return false
		}
		okAll := true
		for i := range x {
			okAll = vAnd(okAll, refDownEq(x[i], a[i]))
		}
		return okAll
	case respBool:
		if x {
			return vIsInt(r2, 1)
		}
		return vIsInt(r2, 0)
	case respNull:
		return r2.data == nil
	case respDouble:
		return vIsText(r2, x.String())
	case respVerbatimString:
		return vIsText(r2, x.text)
	case respBigNumber:
		return vIsText(r2, x.bn.String())
	case respBlobError:
		e, ok := r2.data.(respErrorString)
		return ok && vStrEq(string(e), string(x))
	}
	return vRespEq(r3, r2)
}

// VerifH_c15_commands: the same command on the same data under RESP3 and
// RESP2: the RESP2 reply is the canonical down-conversion of the RESP3 one.
func VerifH_c15_commands() {
	VerifSetup()
	v1, v2 := vStringN("v", 1), vStringN("v", 1)
	c3 := vNewClient()
	c2 := vNewClient()
	vBuildSample(c3, v1, v2)
	vBuildSample(c2, v1, v2)
	vCmd(c3, "HELLO", "3")
	cmds := [][]string{
		{"HGETALL", "h"}, {"HGETALL", "nokey"}, {"HKEYS", "h"}, {"HVALS", "h"}, {"HMGET", "h", "f1", "zz"},
		{"SMEMBERS", "s"}, {"SMISMEMBER", "s", "m1", "zz"}, {"SINTER", "s", "s"},
		{"LRANGE", "l", "0", "-1"}, {"LPOS", "l", v1, "COUNT", "0"}, {"LMPOP", "1", "l", "LEFT"},
		{"GET", "k"}, {"GET", "nokey"}, {"MGET", "k", "nokey"}, {"TYPE", "k"}, {"EXISTS", "k"},
		{"HRANDFIELD", "h1", "1", "WITHVALUES"}, {"HRANDFIELD", "h1", "-2", "WITHVALUES"},
		{"LCS", "k", "k", "IDX"}, {"HELLO"}, {"BITFIELD", "k", "GET", "u4", "0"},
		{"CLIENT", "INFO"}, {"CLIENT", "LIST"}, {"INCRBYFLOAT", "f", "1.5"}, {"HINCRBYFLOAT", "hf", "f", "1.5"}, {"HINCRBYFLOAT", "hf", "t", "0.00001"}, {"HINCRBYFLOAT", "hf", "g", "1e21"},
		{"INCRBYFLOAT", "f2", "0.00001"}, {"INCRBYFLOAT", "f3", "1e21"},
		{"SCAN", "0"}, {"HSCAN", "h", "0"}, {"COMMAND", "COUNT"}, {"GET", "h"}, {"NOSUCHCOMMAND"},
		// deeply nested replies (arrays of arrays holding maps / sets)
		{"COMMAND", "INFO", "get"}, {"COMMAND", "INFO", "lmpop", "nosuch"}, {"COMMAND", "DOCS", "get"}, {"COMMAND", "GETKEYS", "SET", "a", "b"},
		{"COMMAND", "GETKEYSANDFLAGS", "SET", "a", "b"}, {"SRANDMEMBER", "s", "5"}, {"HRANDFIELD", "h1", "2"}, {"SINTERCARD", "1", "s"},
		{"EXEC"}, // a transaction whose results have every shape
	}
	i := vChoice("cmd", len(cmds))
	if cmds[i][0] == "EXEC" {
		for _, c := range []*clientState{c3, c2} {
			vCmd(c, "MULTI")
			vCmd(c, "HGETALL", "h")
			vCmd(c, "SMEMBERS", "s")
			vCmd(c, "HRANDFIELD", "h1", "1", "WITHVALUES")
			vCmd(c, "COMMAND", "INFO", "get")
			vCmd(c, "GET", "nokey")
			vCmd(c, "INCR", "l")
		}
	}
	var r3, r2 respValue
	p3, m3 := vCatch(func() { r3 = vCmd(c3, cmds[i]...) })
	p2, m2 := vCatch(func() { r2 = vCmd(c2, cmds[i]...) })
	vAssert("command-no-panic", !p3 && !p2)
	if p3 || p2 {
		vNote(m3 + m2)
		return
	}
	vAssert("resp2-reply-only-resp2-types", vIsResp2Tree(r2))
	if cmds[i][0] == "HELLO" || cmds[i][0] == "CLIENT" {
		return // carry the connection id / protocol number, which differ by construction
	}
	vAssert("resp2-is-downconversion-of-resp3", refDownEq(r3, r2))
	vOneFrame("resp2-reply", r2.serialize())
	vOneFrame("resp3-reply", r3.serialize())
}

// VerifH_c15_hook: a reply produced by a dispatch hook (the application's
// own command handler) goes through the same protocol conversion as the
// replies of the built-in handlers: on a RESP2 connection only RESP2 types,
// equal to the down-conversion of what a RESP3 connection receives.
func VerifH_c15_hook() {
	VerifSetup()
	which := vChoice("value", 7)
	hook := DispatchHook(func(cmd string, args map[string]any) (bool, any, error) {
		if cmd != "get" {
			return false, nil, nil
		}
		switch which {
		case 0:
			return true, true, nil
		case 1:
			return true, big.NewInt(12345), nil
		case 2:
			return true, map[string]any{"a": int64(1)}, nil
		case 3:
			return true, 1.5, nil
		case 4:
			return true, []any{"x", false, nil}, nil
		case 5:
			return true, "plain", nil
		}
		return true, map[any]struct{}{"m": {}}, nil
	})
	mk := func() *clientState {
		dss := newDataStoreSet(vLane, "", &hook)
		return vNewClientOn(newCmdDispatcher(6379, "127.0.0.1", vCmds, vInfo, dss))
	}
	c3, c2 := mk(), mk()
	vCmd(c3, "HELLO", "3")
	var r3, r2 respValue
	p3, m3 := vCatch(func() { r3 = vCmd(c3, "GET", "k") })
	p2, m2 := vCatch(func() { r2 = vCmd(c2, "GET", "k") })
	vAssert("hook-reply-no-panic", !p3 && !p2)
	if p3 || p2 {
		vNote(m3 + m2)
		return
	}
	vAssert("hook-reply-resp2-only-resp2-types", vIsResp2Tree(r2))
	vAssert("hook-reply-resp2-is-downconversion-of-resp3", refDownEq(r3, r2))
	// a command the hook declines is answered by the built-in handler
	vAssert("declined-command-falls-through", vIsOK(vCmd(c2, "SET", "k", "v")))
}
