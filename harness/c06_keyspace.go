//go:build verif

package redisemu

// C06 — keyspace commands: RENAME/RENAMENX/COPY carry the complete value and
// its expiry; DEL/UNLINK/EXISTS/TOUCH/TYPE/DBSIZE/KEYS/RANDOMKEY agree with
// the set of live keys; glob patterns match as Redis' stringmatchlen.

// refGlob is stringmatchlen of Redis 7 (util.c), case sensitive, on runes.
func refGlob(p, s []rune) bool {
	for len(p) > 0 && len(s) > 0 {
		switch p[0] {
		case '*':
			for len(p) > 1 && p[1] == '*' {
				p = p[1:]
			}
			if len(p) == 1 {
				return true
			}
			for len(s) > 0 {
				if refGlob(p[1:], s) {
					return true
				}
				s = s[1:]
			}
			return false
		case '?':
			s = s[1:]
		case '[':
			p = p[1:]
			not := len(p) > 0 && p[0] == '^'
			if not {
				p = p[1:]
			}
			match := false
			for {
				if len(p) >= 2 && p[0] == '\\' {
					p = p[1:]
					if p[0] == s[0] {
						match = true
					}
				} else if len(p) == 0 {
					// unterminated class: step back so that the common advance below
					// lands on the end of the pattern
					p = []rune{0}
					break
				} else if p[0] == ']' {
					break
				} else if len(p) >= 3 && p[1] == '-' {
					lo, hi := p[0], p[2]
					if lo > hi {
						lo, hi = hi, lo
					}
					p = p[2:]
					if s[0] >= lo && s[0] <= hi {
						match = true
					}
				} else if p[0] == s[0] {
					match = true
				}
				p = p[1:]
			}
			if not {
				match = !match
			}
			if !match {
				return false
			}
			s = s[1:]
		case '\\':
			if len(p) >= 2 {
				p = p[1:]
			}
			if p[0] != s[0] {
				return false
			}
			s = s[1:]
		default:
			if p[0] != s[0] {
				return false
			}
			s = s[1:]
		}
		p = p[1:]
		if len(s) == 0 {
			for len(p) > 0 && p[0] == '*' {
				p = p[1:]
			}
			break
		}
	}
	return len(p) == 0 && len(s) == 0
}

func vSymRunes(name string, max int, alphabet []rune) []rune {
	n := vChoice(name+".n", max+1)
	out := make([]rune, n)
	for i := range out {
		out[i] = alphabet[vChoice(name+".r", len(alphabet))]
	}
	return out
}

// VerifH_c06_glob: redisGlob against stringmatchlen for every pattern of
// up to 3 (quick) / 4 (thorough) characters over the glob alphabet and
// every candidate of up to 2 / 3 characters.
func VerifH_c06_glob() {
	palpha := []rune{'*', '?', '[', ']', '^', '-', '\\', 'a', 'b', 'c'}
	salpha := []rune{'a', 'b', 'c', '-', ']'}
	p := vSymRunes("p", 3+vTier(), palpha)
	vAssume(len(p) > 0) // the empty pattern never reaches redisGlob (callers pass nil = match all)
	s := vSymRunes("s", 2+vTier(), salpha)
	vAssume(len(s) > 0) // the empty key name is outside the claim (Redis special-cases KEYS *)
	var got bool
	panicked, msg := vCatch(func() { got = redisGlob(p, s) })
	vAssert("glob-no-panic", !panicked)
	if panicked {
		vNote(msg)
		return
	}
	vAssert("glob-matches-like-redis", got == refGlob(p, s))
}

// VerifH_c06_rename_copy: RENAME / RENAMENX / COPY [REPLACE] carry the
// complete value of every type and its expiry.
func VerifH_c06_rename_copy() {
	VerifSetup()
	cs := vNewClient()
	skind := vChoice("src", 5)
	v := vStringN("v", 1)
	switch skind {
	case preString:
		vCmd(cs, "SET", "s", v)
	case preList:
		vCmd(cs, "RPUSH", "s", "e1", v, "e3")
	case preHash:
		vCmd(cs, "HSET", "s", "f1", v, "f2", "w")
	case preSet:
		vCmd(cs, "SADD", "s", "m1", "m2", "m3")
	}
	srcTTL := skind != preAbsent && vBool("srcttl")
	if srcTTL {
		vCmd(cs, "EXPIRE", "s", "100000")
	}
	dkind := vChoice("dst", 3) // absent, string, list
	switch dkind {
	case 1:
		vCmd(cs, "SET", "d", "old")
	case 2:
		vCmd(cs, "RPUSH", "d", "old")
	}
	same := vBool("same")
	dk := "d"
	if same {
		dk = "s"
	}
	srcBefore := vSnapKey(cs, "s")
	dstBefore := vSnapKey(cs, dk)
	carried := func(label string) {
		got := vSnapKey(cs, dk)
		want := srcBefore
		vAssert(label+"-value-and-expiry-carried", vSnapEq(want, got))
		oneType, nonEmpty, placed := vKeyspaceOK(cs)
		vAssert(label+"-keyspace-consistent", oneType && nonEmpty && placed)
	}
	switch vChoice("cmd", 4) {
	case 0: // RENAME
		r := vCmd(cs, "RENAME", "s", dk)
		if skind == preAbsent {
			vAssert("rename-missing-error", vIsErr(r))
			vAssert("rename-missing-dst-untouched", vSnapEq(dstBefore, vSnapKey(cs, dk)))
			return
		}
		vAssert("rename-ok", vIsOK(r))
		carried("rename")
		if !same {
			vAssert("rename-source-gone", vIsInt(vCmd(cs, "EXISTS", "s"), 0))
		}
	case 1: // RENAMENX
		r := vCmd(cs, "RENAMENX", "s", dk)
		if skind == preAbsent {
			vAssert("renamenx-missing-error", vIsErr(r))
			return
		}
		if same || dkind != 0 {
			vAssert("renamenx-dest-exists-0", vIsInt(r, 0))
			vAssert("renamenx-dest-exists-src-untouched", vSnapEq(srcBefore, vSnapKey(cs, "s")))
			vAssert("renamenx-dest-exists-dst-untouched", vSnapEq(dstBefore, vSnapKey(cs, dk)))
			return
		}
		vAssert("renamenx-1", vIsInt(r, 1))
		carried("renamenx")
		vAssert("renamenx-source-gone", vIsInt(vCmd(cs, "EXISTS", "s"), 0))
	case 2, 3: // COPY, COPY REPLACE
		var r respValue
		replace := false
		var panicked bool
		var msg string
		if vBool("replace") {
			replace = true
			panicked, msg = vCatch(func() { r = vCmd(cs, "COPY", "s", dk, "REPLACE") })
		} else {
			panicked, msg = vCatch(func() { r = vCmd(cs, "COPY", "s", dk) })
		}
		vAssert("copy-no-panic", !panicked)
		if panicked {
			vNote(msg)
			return
		}
		if same {
			vAssert("copy-onto-itself-error", vIsErr(r))
			vAssert("copy-onto-itself-untouched", vSnapEq(srcBefore, vSnapKey(cs, "s")))
			return
		}
		if skind == preAbsent {
			vAssert("copy-missing-0", vIsInt(r, 0))
			vAssert("copy-missing-dst-untouched", vSnapEq(dstBefore, vSnapKey(cs, dk)))
			return
		}
		if dkind != 0 && !replace {
			vAssert("copy-dest-exists-0", vIsInt(r, 0))
			vAssert("copy-dest-exists-dst-untouched", vSnapEq(dstBefore, vSnapKey(cs, dk)))
			return
		}
		vAssert("copy-1", vIsInt(r, 1))
		carried("copy")
		vAssert("copy-source-unchanged", vSnapEq(srcBefore, vSnapKey(cs, "s")))
		// the copy is independent of the source
		switch skind {
		case preList:
			vCmd(cs, "RPUSH", dk, "extra")
		case preHash:
			vCmd(cs, "HSET", dk, "f1", "changed")
		case preSet:
			vCmd(cs, "SADD", dk, "extra")
		case preString:
			vCmd(cs, "APPEND", dk, "x")
		}
		vAssert("copy-independent-of-source", vSnapEq(srcBefore, vSnapKey(cs, "s")))
	}
}

// VerifH_c06_keyspace_reports: DEL / UNLINK / EXISTS / TOUCH / TYPE / DBSIZE /
// KEYS / RANDOMKEY / SCAN over a symbolic set of live keys of every type.
func VerifH_c06_keyspace_reports() {
	VerifSetup()
	cs := vNewClient()
	names := []string{"ka", "kb", "kc"}
	types := []string{"none", "string", "list", "hash", "set"}
	kinds := make([]int, len(names))
	live := 0
	for i, n := range names {
		kinds[i] = vChoice("kind", 5)
		vSeed(cs, n, kinds[i], "v")
		if kinds[i] != preAbsent {
			live++
		}
	}
	vAssert("dbsize-live-keys", vIsInt(vCmd(cs, "DBSIZE"), int64(live)))
	ka, ok := vArrayOf(vCmd(cs, "KEYS", "*"))
	vAssert("keys-count", ok && len(ka) == live)
	for i, n := range names {
		vAssert("type-report", vTypeOf(cs, n) == types[kinds[i]])
		found := false
		for _, e := range ka {
			if vIsBulk(e, n) {
				found = true
			}
		}
		vAssert("keys-lists-exactly-live-keys", found == (kinds[i] != preAbsent))
	}
	rk := vCmd(cs, "RANDOMKEY")
	if live == 0 {
		vAssert("randomkey-empty-nil", vIsNil(rk))
	} else {
		isLive := false
		for i, n := range names {
			if kinds[i] != preAbsent && vIsBulk(rk, n) {
				isLive = true
			}
		}
		vAssert("randomkey-returns-live-key", isLive)
	}
	e01 := func(i int) int64 {
		if kinds[i] != preAbsent {
			return 1
		}
		return 0
	}
	vAssert("exists-counts-repeats", vIsInt(vCmd(cs, "EXISTS", "ka", "kb", "ka"), 2*e01(0)+e01(1)))
	vAssert("touch-counts", vIsInt(vCmd(cs, "TOUCH", "ka", "kc"), e01(0)+e01(2)))
	name := "DEL"
	if vBool("unlink") {
		name = "UNLINK"
	}
	vAssert("del-counts-each-key-once", vIsInt(vCmd(cs, name, "ka", "kb", "ka"), e01(0)+e01(1)))
	vAssert("del-removed-a", vIsInt(vCmd(cs, "EXISTS", "ka", "kb"), 0))
	vAssert("del-type-none", vTypeOf(cs, "ka") == "none")
	vAssert("del-left-c", vIsInt(vCmd(cs, "EXISTS", "kc"), e01(2)))
	vAssert("dbsize-after-del", vIsInt(vCmd(cs, "DBSIZE"), e01(2)))
	ka2, ok2 := vArrayOf(vCmd(cs, "KEYS", "*"))
	vAssert("keys-after-del", ok2 && int64(len(ka2)) == e01(2))
}

// VerifH_c06_sort: SORT [ALPHA] [DESC] [LIMIT] [STORE] on lists and sets of
// one-digit / one-letter elements.
func VerifH_c06_sort() {
	VerifSetup()
	cs := vNewClient()
	isSet := vBool("set")
	digits := []string{"1", "2", "3"}
	perm := [][]int{{0, 1, 2}, {2, 0, 1}, {1, 2, 0}, {2, 1, 0}}[vChoice("perm", 4)]
	n := 2 + vChoice("n", 2)
	var elems []string
	for i := 0; i < n; i++ {
		elems = append(elems, digits[perm[i]%3])
	}
	if isSet {
		for _, e := range elems {
			vCmd(cs, "SADD", "k", e)
		}
	} else {
		for _, e := range elems {
			vCmd(cs, "RPUSH", "k", e)
		}
	}
	desc := vBool("desc")
	alpha := vBool("alpha")
	args := []string{"SORT", "k"}
	if alpha {
		args = append(args, "ALPHA")
	}
	if desc {
		args = append(args, "DESC")
	}
	r := vCmd(cs, args...)
	// expected: distinct one-digit elements sorted
	present := [3]bool{}
	cnt := [3]int{}
	for _, e := range elems {
		present[int(e[0]-'1')] = true
		cnt[int(e[0]-'1')]++
	}
	var want []string
	for i := 0; i < 3; i++ {
		j := i
		if desc {
			j = 2 - i
		}
		if present[j] {
			k := cnt[j]
			if isSet {
				k = 1
			}
			for ; k > 0; k-- {
				want = append(want, digits[j])
			}
		}
	}
	vAssert("sort-order", vArrayIs(r, want))
	// non-numeric elements without ALPHA are an error
	vCmd(cs, "RPUSH", "w", "b", "a")
	vAssert("sort-non-numeric-error", vIsErr(vCmd(cs, "SORT", "w")))
	vAssert("sort-alpha", vArrayIs(vCmd(cs, "SORT", "w", "ALPHA"), []string{"a", "b"}))
	// STORE
	rs := vCmd(cs, append(args, "STORE", "dst")...)
	vAssert("sort-store-count", vIsInt(rs, int64(len(want))))
	vAssert("sort-store-content", vArrayIs(vCmd(cs, "LRANGE", "dst", "0", "-1"), want))
	vAssert("sort-source-untouched", vIsInt(vCmd(cs, "EXISTS", "k"), 1))
}

// VerifH_c06_sort_options: SORT with BY, LIMIT (all 64-bit offsets and
// counts), GET and STORE against the algorithm of Redis' sort.c: weights
// from the BY keys (missing = 0), ties broken by the element itself, DESC
// reversing the whole comparison, "BY nosort" keeping list order, LIMIT
// applied after sorting, GET producing one value (or nil) per pattern.
func VerifH_c06_sort_options() {
	VerifSetup()
	cs := vNewClient()
	perm := [][]string{{"1", "2", "3"}, {"3", "1", "2"}, {"2", "3", "1"}, {"3", "2", "1"}}[vChoice("perm", 4)]
	vCmd(cs, append([]string{"RPUSH", "k"}, perm...)...)
	// objects, and (when sorting BY w_*) weights
	objOf := map[string]string{"1": "A", "3": "C"} // o_2 is missing
	vCmd(cs, "MSET", "o_1", "A", "o_3", "C")
	by := vChoice("by", 3) // 0 none, 1 BY w_*, 2 BY nosort
	weightOf := map[string]int{}
	if by == 1 {
		for _, e := range []string{"1", "2", "3"} {
			switch vChoice("w"+e, 3) {
			case 1:
				vCmd(cs, "SET", "w_"+e, "10")
				weightOf[e] = 10
			case 2:
				vCmd(cs, "SET", "w_"+e, "20")
				weightOf[e] = 20
			}
		}
	}
	desc := vBool("desc")
	var get int // 0 none, 1 "#", 2 "o_*", 3 "#" + "o_*", 4 pattern without *
	store := false
	if by == 1 {
		get = 3 * vChoice("get", 2)
	} else {
		get = vChoice("get", 5)
		store = vBool("store")
	}
	useLimit := vBool("limit")
	args := []string{"SORT", "k"}
	switch by {
	case 1:
		args = append(args, "BY", "w_*")
	case 2:
		args = append(args, "BY", "nosort")
	}
	var off, cnt int64
	if useLimit {
		os, cs2 := vDecimal("off"), vDecimal("cnt")
		off, cnt = vDecimalOf(os), vDecimalOf(cs2)
		args = append(args, "LIMIT", os, cs2)
	}
	var pats []string
	switch get {
	case 1:
		pats = []string{"#"}
	case 2:
		pats = []string{"o_*"}
	case 3:
		pats = []string{"#", "o_*"}
	case 4:
		pats = []string{"plain"}
	}
	for _, p := range pats {
		args = append(args, "GET", p)
	}
	if desc {
		args = append(args, "DESC")
	}
	if store {
		vCmd(cs, "SET", "dst", "old")
		args = append(args, "STORE", "dst")
	}
	r := vCmd(cs, args...)

	// reference
	order := append([]string{}, perm...)
	if by != 2 {
		key := func(e string) int {
			if by == 1 {
				return weightOf[e]
			}
			return int(e[0] - '0')
		}
		less := func(a, b string) bool {
			c := 0
			switch {
			case key(a) < key(b):
				c = -1
			case key(a) > key(b):
				c = 1
			case a < b:
				c = -1
			case a > b:
				c = 1
			}
			if desc {
				c = -c
			}
			return c < 0
		}
		for i := 1; i < len(order); i++ {
			for j := i; j > 0 && less(order[j], order[j-1]); j-- {
				order[j], order[j-1] = order[j-1], order[j]
			}
		}
	}
	if useLimit {
		n := int64(len(order))
		start := off
		if start < 0 {
			start = 0
		}
		end := n - 1
		if cnt >= 0 {
			if cnt > n { // (start+cnt-1 cannot overflow after this)
				cnt = n
			}
			end = start + cnt - 1
		}
		if start >= n {
			start, end = n-1, n-2
		}
		if end >= n {
			end = n - 1
		}
		var cut []string
		for i := start; i <= end; i++ {
			cut = append(cut, order[i])
		}
		order = cut
	}
	type cell struct {
		s   string
		nil bool
	}
	var want []cell
	for _, e := range order {
		if len(pats) == 0 {
			want = append(want, cell{s: e})
		}
		for _, p := range pats {
			switch p {
			case "#":
				want = append(want, cell{s: e})
			case "o_*":
				if o, ok := objOf[e]; ok {
					want = append(want, cell{s: o})
				} else {
					want = append(want, cell{nil: true})
				}
			default:
				want = append(want, cell{nil: true})
			}
		}
	}
	if !store {
		a, ok := vArrayOf(r)
		vAssert("sort-options-reply-length", ok && len(a) == len(want))
		if !ok || len(a) != len(want) {
			return
		}
		same := true
		for i, w := range want {
			if w.nil {
				same = vAnd(same, vIsNil(a[i]))
			} else {
				same = vAnd(same, vIsBulk(a[i], w.s))
			}
		}
		vAssert("sort-options-reply", same)
		return
	}
	vAssert("sort-store-reply-count", vIsInt(r, int64(len(want))))
	if len(want) == 0 {
		vAssert("sort-store-empty-result-deletes-destination", vIsInt(vCmd(cs, "EXISTS", "dst"), 0))
		return
	}
	var stored []string
	for _, w := range want {
		stored = append(stored, w.s) // a nil is stored as the empty string
	}
	vAssert("sort-store-content", vArrayIs(vCmd(cs, "LRANGE", "dst", "0", "-1"), stored))
	vAssert("sort-store-source-untouched", vArrayIs(vCmd(cs, "LRANGE", "k", "0", "-1"), perm))
	vReach("sort-limit-nonempty-window", useLimit && len(order) > 0 && len(order) < 3)
}
