//go:build verif

package redisemu

// C18 — bitmaps are bit-exact.  Kernel harnesses: the real bitMath.go
// functions against the byte array read as one big-endian bit vector.

// refBit returns bit i (big-endian bit order: bit 0 is the MSB of byte 0).
// The caller keeps i within the array.
func refBit(b []byte, i int) uint64 {
	return uint64(b[i/8]>>(7-uint(i%8))) & 1
}

// refExtract reads width (1..64) bits starting at bit start as an unsigned
// number, branch-free in start and width so that the reference adds no
// case split of its own.
func refExtract(b []byte, start, width int) int64 {
	var v uint64
	for k := 0; k < 64; k++ {
		bit := refBit(b, start+k)
		v = uint64(vIte64(k < width, int64(v<<1|bit), int64(v)))
	}
	return int64(v)
}

// VerifH_c18_extract: extractBitfield over a 10-byte array, every start
// offset within the first two bytes and every width 1..64.
func VerifH_c18_extract() {
	bytes := vBytesN("b", 10)
	start := vInt("start")
	width := vInt("width")
	vAssume(start >= 0 && start < 16)
	vAssume(width >= 1 && width <= 64)
	got := extractBitfield(bytes, start, start+width-1)
	want := refExtract(bytes, start, width)
	vAssert("extract-eq", got == want)
	vReach("extract-wide", width == 64 && start == 7)
}

// VerifH_c18_signext: signExtend(value, bits) for all values and widths.
func VerifH_c18_signext() {
	v := vInt64("v")
	bits := vInt("bits")
	vAssume(bits >= 1 && bits <= 64)
	// precondition used by callers: v has no bits above 'bits'
	if bits < 64 {
		vAssume(uint64(v)>>uint(bits) == 0)
	}
	got := signExtend(v, bits)
	want := v << uint(64-bits) >> uint(64-bits)
	vAssert("signext-eq", got == want)
	vReach("signext-neg", got < 0)
}
