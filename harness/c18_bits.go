//go:build verif

package redisemu

// C18 — bitmaps are bit-exact.  Kernel harnesses: the real bitMath.go
// functions against the byte array read as one big-endian bit vector.

// refBit returns bit i (big-endian bit order: bit 0 is the MSB of byte 0).
// The caller keeps i within the array.
func refBit(b []byte, i int) uint64 {
	return uint64(b[i/8]>>(7-uint(i%8))) & 1
}

// refExtract reads width (1..64) bits starting at bit start as an unsigned
// number, branch-free in start and width so that the reference adds no
// case split of its own.
func refExtract(b []byte, start, width int) int64 {
	var v uint64
	for k := 0; k < 64; k++ {
		bit := refBit(b, start+k)
		v = uint64(vIte64(k < width, int64(v<<1|bit), int64(v)))
	}
	return int64(v)
}

// VerifH_c18_extract: extractBitfield over a 10-byte array, every start
// offset within the first two bytes and every width 1..64.
func VerifH_c18_extract() {
	bytes := vBytesN("b", 10)
	start := vInt("start")
	width := vInt("width")
	vAssume(start >= 0 && start < 16)
	vAssume(width >= 1 && width <= 64)
	got := extractBitfield(bytes, start, start+width-1)
	want := refExtract(bytes, start, width)
	vAssert("extract-eq", got == want)
	vReach("extract-wide", width == 64 && start == 7)
}

// VerifH_c18_signext: signExtend(value, bits) for all values and widths.
func VerifH_c18_signext() {
	v := vInt64("v")
	bits := vInt("bits")
	vAssume(bits >= 1 && bits <= 64)
	// precondition used by callers: v has no bits above 'bits'
	if bits < 64 {
		vAssume(uint64(v)>>uint(bits) == 0)
	}
	got := signExtend(v, bits)
	want := v << uint(64-bits) >> uint(64-bits)
	vAssert("signext-eq", got == want)
	vReach("signext-neg", got < 0)
}

// refSetBits writes the low 'width' bits of v at bit offset start (branch
// free in start/width); returns the new array.
func refSetBits(b []byte, start, width int, v uint64) []byte {
	out := make([]byte, len(b))
	copy(out, b)
	for i := 0; i < len(b)*8; i++ {
		inField := vAnd(i >= start, i < start+width)
		// bit k of the field (0 = most significant) is bit width-1-k of v
		k := i - start
		var nb uint64
		sh := uint(width-1-k) & 63
		nb = (v >> sh) & 1
		old := uint64(out[i/8]>>(7-uint(i%8))) & 1
		bit := uint64(vIte64(inField, int64(nb), int64(old)))
		mask := byte(1) << (7 - uint(i%8))
		out[i/8] = out[i/8]&^mask | byte(bit)<<(7-uint(i%8))
	}
	return out
}

// VerifH_c18_setbitfield: setBitfield writes exactly the addressed bits.
func VerifH_c18_setbitfield() {
	bytes := vBytesN("b", 10)
	start := vInt("start")
	width := vInt("width")
	v := vInt64("v")
	vAssume(start >= 0 && start < 16)
	vAssume(width >= 1 && width <= 64)
	want := refSetBits(bytes, start, width, uint64(v))
	setBitfield(bytes, start, width, v)
	vAssert("setbitfield-eq", vBytesEq(bytes, want))
	vReach("setbitfield-unaligned-wide", width == 64 && start == 3)
}

// Redis' checkSignedBitfieldOverflow: returns (overflow direction, wrapped value)
func refSignedOverflow(value, incr int64, bits int) (int, int64) {
	var max int64
	if bits == 64 {
		max = 9223372036854775807
	} else {
		max = int64(1)<<uint(bits-1) - 1
	}
	min := -max - 1
	maxincr := max - value
	minincr := min - value
	dir := 0
	if value > max || (bits != 64 && incr > maxincr) || (value >= 0 && incr > 0 && incr > maxincr) {
		dir = 1
	} else if value < min || (bits != 64 && incr < minincr) || (value < 0 && incr < 0 && incr < minincr) {
		dir = -1
	}
	c := uint64(value) + uint64(incr)
	if bits < 64 {
		msb := uint64(1) << uint(bits-1)
		mask := ^uint64(0) << uint(bits)
		if c&msb != 0 {
			c |= mask
		} else {
			c &^= mask
		}
	}
	return dir, int64(c)
}

// VerifH_c18_signed_overflow: signedBitfieldOverflow against Redis'
// checkSignedBitfieldOverflow for all values, increments and widths.
func VerifH_c18_signed_overflow() {
	a := vInt64("a")
	b := vInt64("b")
	bits := vInt("bits")
	vAssume(bits >= 1 && bits <= 64)
	gotDir, gotWrapped := signedBitfieldOverflow(a, b, bits)
	dir, wrapped := refSignedOverflow(a, b, bits)
	vAssert("signed-overflow-dir", gotDir == dir)
	vAssert("signed-overflow-wrapped", gotWrapped == wrapped)
	// and against exact arithmetic for an in-range old value
	if bits < 64 {
		lim := int64(1) << uint(bits-1)
		if a >= -lim && a < lim && b > -4611686018427387904 && b < 4611686018427387904 {
			sum := a + b // cannot overflow: |a| < 2^62, |b| < 2^62
			vAssert("signed-overflow-exact", (gotDir > 0) == (sum >= lim) && (gotDir < 0) == (sum < -lim))
		}
	}
	vReach("signed-overflow-64", bits == 64 && dir != 0)
	vReach("signed-underflow", dir < 0 && bits == 8)
}

// VerifH_c18_unsigned_overflow: unsignedBitfieldOverflow for all inputs.
func VerifH_c18_unsigned_overflow() {
	v := vUint64("v")
	incr := vInt64("incr")
	bits := vInt("bits")
	vAssume(bits >= 1 && bits <= 63)
	gotDir, gotWrapped := unsignedBitfieldOverflow(v, incr, bits)
	max := uint64(1)<<uint(bits) - 1
	vAssert("unsigned-wrapped", gotWrapped == (v+uint64(incr))&max)
	if bits <= 62 && v <= max && incr > -4611686018427387904 && incr < 4611686018427387904 {
		// exact: v < 2^62 and |incr| < 2^62, so int64(v)+incr cannot overflow
		sum := int64(v) + incr
		vAssert("unsigned-dir-exact", (gotDir > 0) == (sum > int64(max)) && (gotDir < 0) == (sum < 0))
	}
	if v > max {
		vAssert("unsigned-out-of-range-value-overflows", gotDir > 0)
	}
	vReach("unsigned-underflow", gotDir < 0)
}

// bitfield command-level model (bitfieldGeneric of Redis 7 bitops.c) for a
// single operation on a key holding 'cur' (nil = missing key).
//
//	kind 0 GET, 1 SET, 2 INCRBY ; ow 0 WRAP 1 SAT 2 FAIL
//
// returns (reply is nil, reply value, resulting bytes, key written)
func refBitfield(cur []byte, kind int, signed bool, bits, off int, arg int64, ow int) (bool, int64, []byte, bool) {
	need := (off+bits-1)/8 + 1
	buf := cur
	if kind != 0 && len(buf) < need {
		nb := make([]byte, need)
		copy(nb, buf)
		buf = nb
	}
	// read the old value (zero beyond the end)
	var raw uint64
	for k := 0; k < bits; k++ {
		i := off + k
		var bit uint64
		if i/8 < len(buf) {
			bit = uint64(buf[i/8]>>(7-uint(i%8))) & 1
		}
		raw = raw<<1 | bit
	}
	old := int64(raw)
	if signed && bits < 64 && raw&(uint64(1)<<uint(bits-1)) != 0 {
		old = int64(raw | ^uint64(0)<<uint(bits))
	}
	if kind == 0 {
		return false, old, cur, false
	}
	var newval, retval int64
	overflow := false
	if signed {
		var max int64
		if bits == 64 {
			max = 9223372036854775807
		} else {
			max = int64(1)<<uint(bits-1) - 1
		}
		min := -max - 1
		var dir int
		var wrapped int64
		if kind == 2 {
			dir, wrapped = refSignedOverflow(old, arg, bits)
			newval = old + arg
		} else {
			dir, wrapped = refSignedOverflow(arg, 0, bits)
			newval = arg
		}
		if dir != 0 {
			overflow = true
			switch ow {
			case 0:
				newval = wrapped
			case 1:
				if dir > 0 {
					newval = max
				} else {
					newval = min
				}
			}
		}
		if kind == 2 {
			retval = newval
		} else {
			retval = old
		}
	} else {
		max := uint64(1)<<uint(bits) - 1 // bits <= 63
		var value uint64
		var incr int64
		if kind == 2 {
			value, incr = uint64(old), arg
		} else {
			value, incr = uint64(arg), 0
		}
		maxincr := max - value
		minincr := -int64(value)
		dir := 0
		if value > max || (incr > 0 && uint64(incr) > maxincr) {
			dir = 1
		} else if incr < 0 && incr < minincr {
			dir = -1
		}
		res := (value + uint64(incr)) & max
		if dir != 0 {
			overflow = true
			if ow == 1 {
				if dir > 0 {
					res = max
				} else {
					res = 0
				}
			}
		}
		newval = int64(res)
		if kind == 2 {
			retval = newval
		} else {
			retval = old
		}
	}
	if overflow && ow == 2 {
		return true, 0, cur, false
	}
	out := make([]byte, len(buf))
	copy(out, buf)
	for k := 0; k < bits; k++ {
		i := off + k
		bit := byte(uint64(newval)>>uint(bits-1-k)) & 1
		mask := byte(1) << (7 - uint(i%8))
		out[i/8] = out[i/8]&^mask | bit<<(7-uint(i%8))
	}
	return false, retval, out, true
}

var vBitWidthsQuick = []int{1, 2, 7, 8, 9, 16, 33, 63, 64}

// VerifH_c18_bitfield_cmd: one BITFIELD operation through the real
// dispatcher: type and offset from a table (all types in the thorough
// tier), stored bytes and value symbolic, every OVERFLOW mode.
func VerifH_c18_bitfield_cmd() {
	VerifSetup()
	cs := vNewClient()
	var bits int
	if vTier() > 0 {
		bits = vChoice("bits", 64) + 1
	} else {
		bits = vBitWidthsQuick[vChoice("bits", len(vBitWidthsQuick))]
	}
	signed := vBool("signed")
	if !signed && bits == 64 {
		return
	}
	offs := []int{0, 1, 7, 8, 13}
	off := offs[vChoice("off", len(offs))]
	offArg := vItoa(off)
	if off == 13 && vBool("hashoffset") { // '#n' = n * width
		n := vChoice("n", 2)
		off = n * bits
		offArg = "#" + vItoa(n)
	}
	vAssume(off+bits <= 80)
	// key: missing, or 0..3 bytes
	var cur []byte
	if vBool("exists") {
		cur = vBytesN("cur", 2)
		vCmd(cs, "SET", "k", string(cur))
	}
	kind := vChoice("kind", 3)
	ow := 0
	if kind != 0 {
		ow = vChoice("ow", 3)
	}
	typ := "u"
	if signed {
		typ = "i"
	}
	typ += vItoa(bits)
	args := []string{"BITFIELD", "k"}
	if kind != 0 {
		args = append(args, "OVERFLOW", []string{"WRAP", "SAT", "FAIL"}[ow])
	}
	var arg int64
	switch kind {
	case 0:
		args = append(args, "GET", typ, offArg)
	case 1:
		s := vDecimal("value")
		arg = vDecimalOf(s)
		args = append(args, "SET", typ, offArg, s)
	case 2:
		s := vDecimal("value")
		arg = vDecimalOf(s)
		args = append(args, "INCRBY", typ, offArg, s)
	}
	var r respValue
	panicked, msg := vCatch(func() { r = vCmd(cs, args...) })
	vAssert("bitfield-no-panic", !panicked)
	if panicked {
		vNote(msg)
		return
	}
	isNil, want, wantBytes, written := refBitfield(cur, kind, signed, bits, off, arg, ow)
	a, ok := vArrayOf(r)
	vAssert("bitfield-reply-shape", ok && len(a) == 1)
	if !ok || len(a) != 1 {
		return
	}
	if isNil {
		vAssert("bitfield-fail-nil", vIsNil(a[0]))
	} else {
		vAssert("bitfield-reply-value", vIsInt(a[0], want))
	}
	g := vCmd(cs, "GET", "k")
	if cur == nil && !written {
		vAssert("bitfield-read-does-not-create", vIsNil(g))
	} else {
		vAssert("bitfield-stored-bytes", vIsBulk(g, string(wantBytes)))
	}
	vReach("bitfield-overflow-fail", isNil)
	vReach("bitfield-signed-set", kind == 1 && signed && written)
}

// VerifH_c18_setgetbit: SETBIT / GETBIT for all offsets (growth bounded).
func VerifH_c18_setgetbit() {
	VerifSetup()
	cs := vNewClient()
	var cur []byte
	exists := vBool("exists")
	if exists {
		cur = vBytes("cur", 3)
		vCmd(cs, "SET", "k", string(cur))
	}
	os := vDecimal("off")
	off := vDecimalOf(os)
	if vBool("set") {
		bs := vDecimal("bit")
		bit := vDecimalOf(bs)
		// growth bound of this harness; larger offsets up to 2^32-1 are legal
		// and allocate offset/8 bytes
		vAssume(off < 40 || off >= 4294967296)
		var r respValue
		panicked, msg := vCatch(func() { r = vCmd(cs, "SETBIT", "k", os, bs) })
		vAssert("setbit-no-panic", !panicked)
		if panicked {
			vNote(msg)
			return
		}
		if off < 0 || off >= 4294967296 || (bit != 0 && bit != 1) {
			vAssert("setbit-bad-arg-error", vIsErr(r))
			g := vCmd(cs, "GET", "k")
			if exists {
				vAssert("setbit-error-inert", vIsBulk(g, string(cur)))
			} else {
				vAssert("setbit-error-no-create", vIsNil(g))
			}
			return
		}
		o := int(off)
		need := o/8 + 1
		buf := cur
		if len(buf) < need {
			nb := make([]byte, need)
			copy(nb, buf)
			buf = nb
		}
		old := int64(buf[o/8]>>(7-uint(o%8))) & 1
		out := make([]byte, len(buf))
		copy(out, buf)
		mask := byte(1) << (7 - uint(o%8))
		out[o/8] = out[o/8]&^mask | byte(bit)<<(7-uint(o%8))
		vAssert("setbit-old", vIsInt(r, old))
		vAssert("setbit-stored", vIsBulk(vCmd(cs, "GET", "k"), string(out)))
		return
	}
	r := vCmd(cs, "GETBIT", "k", os)
	if off < 0 || off >= 4294967296 {
		vAssert("getbit-bad-offset-error", vIsErr(r))
		return
	}
	want := int64(0)
	if off/8 < int64(len(cur)) {
		want = int64(cur[off/8]>>(7-uint(off%8))) & 1
	}
	vAssert("getbit-value", vIsInt(r, want))
	g := vCmd(cs, "GET", "k")
	if exists {
		vAssert("getbit-readonly", vIsBulk(g, string(cur)))
	} else {
		vAssert("getbit-no-create", vIsNil(g))
	}
}

func refPopcount(b byte) int64 {
	var n int64
	for i := 0; i < 8; i++ {
		n += int64(b>>uint(i)) & 1
	}
	return n
}

// VerifH_c18_bitcount: BITCOUNT key [start end [BYTE|BIT]] for all int64.
func VerifH_c18_bitcount() {
	VerifSetup()
	cs := vNewClient()
	exists := vBool("exists")
	var cur []byte
	if exists {
		cur = vBytes("cur", 1+vTier())
		vCmd(cs, "SET", "k", string(cur))
	}
	args := []string{"BITCOUNT", "k"}
	hasRange := vBool("range")
	isBit := false
	var start, end int64
	if hasRange {
		ss, es := vDecimal("start"), vDecimal("end")
		start, end = vDecimalOf(ss), vDecimalOf(es)
		args = append(args, ss, es)
		switch vChoice("unit", 3) {
		case 1:
			args = append(args, "BYTE")
		case 2:
			args = append(args, "BIT")
			isBit = true
		}
	}
	var r respValue
	panicked, msg := vCatch(func() { r = vCmd(cs, args...) })
	vAssert("bitcount-no-panic", !panicked)
	if panicked {
		vNote(msg)
		return
	}
	if !exists {
		vAssert("bitcount-missing-0", vIsInt(r, 0))
		return
	}
	strlen := int64(len(cur))
	if !hasRange {
		var n int64
		for _, b := range cur {
			n += refPopcount(b)
		}
		vAssert("bitcount-all", vIsInt(r, n))
		return
	}
	totlen := strlen
	if isBit {
		totlen <<= 3
	}
	var want int64
	if !(start < 0 && end < 0 && start > end) {
		if start < 0 {
			start += totlen
		}
		if end < 0 {
			end += totlen
		}
		if start < 0 {
			start = 0
		}
		if end < 0 {
			end = 0
		}
		if end >= totlen {
			end = totlen - 1
		}
		if start <= end {
			// count bits [sbit, ebit]
			sbit, ebit := start, end
			if !isBit {
				sbit, ebit = start*8, end*8+7
			}
			for i := int64(0); i < strlen*8; i++ {
				if i >= sbit && i <= ebit {
					want += int64(cur[i/8]>>(7-uint(i%8))) & 1
				}
			}
		}
	}
	vAssert("bitcount-range", vIsInt(r, want))
	vReach("bitcount-start-beyond-end", hasRange && start >= strlen && strlen > 0)
}

// VerifH_c18_bitpos: BITPOS key bit [start [end [BYTE|BIT]]] for all int64.
func VerifH_c18_bitpos() {
	VerifSetup()
	cs := vNewClient()
	exists := vBool("exists")
	var cur []byte
	if exists {
		cur = vBytes("cur", 1+vTier())
		vCmd(cs, "SET", "k", string(cur))
	}
	bs := vDecimal("bit")
	bit := vDecimalOf(bs)
	args := []string{"BITPOS", "k", bs}
	form := vChoice("form", 4) // 0 none, 1 start, 2 start end, 3 start end unit
	isBit := false
	var start, end int64
	endGiven := false
	if form >= 1 {
		ss := vDecimal("start")
		start = vDecimalOf(ss)
		args = append(args, ss)
	}
	if form >= 2 {
		es := vDecimal("end")
		end = vDecimalOf(es)
		endGiven = true
		args = append(args, es)
	}
	if form == 3 {
		if vBool("unitbit") {
			args = append(args, "BIT")
			isBit = true
		} else {
			args = append(args, "BYTE")
		}
	}
	var r respValue
	panicked, msg := vCatch(func() { r = vCmd(cs, args...) })
	vAssert("bitpos-no-panic", !panicked)
	if panicked {
		vNote(msg)
		return
	}
	if bit != 0 && bit != 1 {
		vAssert("bitpos-bad-bit-error", vIsErr(r))
		return
	}
	if !exists {
		if bit == 1 {
			vAssert("bitpos-missing-1", vIsInt(r, -1))
		} else {
			vAssert("bitpos-missing-0", vIsInt(r, 0))
		}
		return
	}
	strlen := int64(len(cur))
	totlen := strlen
	if isBit {
		totlen <<= 3
	}
	if !endGiven {
		end = totlen - 1
	}
	if start < 0 {
		start += totlen
	}
	if end < 0 {
		end += totlen
	}
	if start < 0 {
		start = 0
	}
	if end < 0 {
		end = 0
	}
	if end >= totlen {
		end = totlen - 1
	}
	want := int64(-1)
	if start <= end {
		sbit, ebit := start, end
		if !isBit {
			sbit, ebit = start*8, end*8+7
		}
		found := false
		for i := int64(0); i < strlen*8; i++ {
			if !found && i >= sbit && i <= ebit {
				if int64(cur[i/8]>>(7-uint(i%8)))&1 == bit {
					want = i
					found = true
				}
			}
		}
		if !found && bit == 0 && !endGiven {
			// all ones and no explicit end: the first zero is just past the string
			want = ebit + 1
		}
	}
	vAssert("bitpos-position", vIsInt(r, want))
	vReach("bitpos-zero-past-end", exists && bit == 0 && !endGiven && want == strlen*8 && strlen > 0)
}

// VerifH_c18_bitop: BITOP AND|OR|XOR|NOT with zero padding to the longest.
func VerifH_c18_bitop() {
	VerifSetup()
	cs := vNewClient()
	mk := func(k, name string) []byte {
		if !vBool(name + ".exists") {
			return nil
		}
		b := vBytes(name, 2)
		vCmd(cs, "SET", k, string(b))
		return b
	}
	a := mk("a", "a")
	b := mk("b", "b")
	op := vChoice("op", 4)
	destIsA := vBool("dest-is-a")
	dk := "d"
	if destIsA {
		dk = "a"
	}
	var r respValue
	var want []byte
	if op == 3 {
		r = vCmd(cs, "BITOP", "NOT", dk, "a")
		want = make([]byte, len(a))
		for i := range a {
			want[i] = ^a[i]
		}
	} else {
		name := []string{"AND", "OR", "XOR"}[op]
		r = vCmd(cs, "BITOP", name, dk, "a", "b")
		n := len(a)
		if len(b) > n {
			n = len(b)
		}
		want = make([]byte, n)
		for i := 0; i < n; i++ {
			var x, y byte
			if i < len(a) {
				x = a[i]
			}
			if i < len(b) {
				y = b[i]
			}
			switch op {
			case 0:
				want[i] = x & y
			case 1:
				want[i] = x | y
			case 2:
				want[i] = x ^ y
			}
		}
	}
	vAssert("bitop-len", vIsInt(r, int64(len(want))))
	g := vCmd(cs, "GET", dk)
	if len(want) == 0 {
		// Redis deletes the destination when the result is empty
		vAssert("bitop-empty-result-no-key", vIsNil(g))
	} else {
		vAssert("bitop-result", vIsBulk(g, string(want)))
	}
	if !destIsA {
		ga := vCmd(cs, "GET", "a")
		if a == nil {
			vAssert("bitop-operand-a-still-missing", vIsNil(ga))
		} else {
			vAssert("bitop-operand-a-unchanged", vIsBulk(ga, string(a)))
		}
	}
}

// VerifH_c18_bitfield_offsets: BITFIELD / BITFIELD_RO with an arbitrary
// 64-bit offset, plain and in the '#n' form: negative offsets and offsets at
// or above 2^32 bits are refused with an error and change nothing, nothing
// panics, and an accepted GET of bits past the end reads zeros.
func VerifH_c18_bitfield_offsets() {
	VerifSetup()
	cs := vNewClient()
	cur := vBytesN("cur", 2)
	vCmd(cs, "SET", "k", string(cur))
	os := vDecimal("off")
	off := vDecimalOf(os)
	hash := vBool("hash")
	wi := vChoice("width", 3)
	width := []int64{5, 8, 63}[wi]
	typ := []string{"i5", "u8", "u63"}[wi]
	// first multiple of the width that reaches 2^32 bits
	limit := []int64{858993460, 536870912, 68174085}[wi]
	arg := os
	var bad bool
	var eff int64
	if hash {
		arg = "#" + os
		bad = off < 0 || off >= limit
		// growth / read bound of this harness (accepted offsets up to 2^32-1
		// are legal and make the string grow to them)
		vAssume(bad || off < 12)
		if !bad {
			for i := int64(0); i < off; i++ {
				eff += width
			}
		}
	} else {
		bad = off < 0 || off >= 4294967296
		vAssume(bad || off < 64)
		eff = off
	}
	which := vChoice("cmd", 4)
	var args []string
	switch which {
	case 0:
		args = []string{"BITFIELD", "k", "GET", typ, arg}
	case 1:
		args = []string{"BITFIELD_RO", "k", "GET", typ, arg}
	case 2:
		args = []string{"BITFIELD", "k", "SET", typ, arg, "1"}
	case 3:
		args = []string{"BITFIELD", "k", "INCRBY", typ, arg, "1"}
	}
	var r respValue
	panicked, msg := vCatch(func() { r = vCmd(cs, args...) })
	vAssert("bitfield-offset-no-panic", !panicked)
	if panicked {
		vNote(msg)
		return
	}
	if bad {
		vAssert("bitfield-bad-offset-error", vIsErr(r))
		vAssert("bitfield-bad-offset-inert", vIsBulk(vCmd(cs, "GET", "k"), string(cur)))
		return
	}
	a, ok := vArrayOf(r)
	vAssert("bitfield-good-offset-one-result", ok && len(a) == 1)
	if which <= 1 && ok && len(a) == 1 && eff >= 16 {
		vAssert("bitfield-get-past-end-reads-zero", vIsInt(a[0], 0))
		vAssert("bitfield-get-does-not-grow", vIsBulk(vCmd(cs, "GET", "k"), string(cur)))
	}
	vReach("bitfield-offset-accepted", !bad)
}
