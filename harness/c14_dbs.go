//go:build verif

package redisemu

// C14 — databases are isolated per index, flushes are global, session
// state is per connection.

// VerifH_c14_select: SELECT for every int64 index.
func VerifH_c14_select() {
	VerifSetup()
	disp := vNewServer()
	a := vNewClientOn(disp)
	b := vNewClientOn(disp)
	vCmd(a, "SELECT", "3")
	vCmd(a, "SET", "k", "in3")
	s := vDecimal("index")
	i := vDecimalOf(s)
	r := vCmd(a, "SELECT", s)
	if i < 0 || i > 15 {
		vAssert("select-out-of-range-error", vIsErr(r))
		vAssert("select-out-of-range-keeps-selection", a.selectedDb == 3)
		vAssert("select-out-of-range-still-reads-db3", vIsBulk(vCmd(a, "GET", "k"), "in3"))
	} else {
		vAssert("select-ok", vIsOK(r))
		vAssert("select-selected", int64(a.selectedDb) == i)
		g := vCmd(a, "GET", "k")
		if i == 3 {
			vAssert("select-same-db-sees-key", vIsBulk(g, "in3"))
		} else {
			vAssert("select-other-db-does-not-see-key", vIsNil(g))
		}
	}
	vAssert("select-does-not-move-other-connection", b.selectedDb == 0)
	vAssert("new-connection-starts-in-db0", vIsNil(vCmd(b, "GET", "k")))
}

type vConnModel struct {
	db   int
	name string
}

// VerifH_c14_programs: two connections (a third one opened at a symbolic
// step) issue SELECT / SET / GET / DEL / DBSIZE / FLUSHDB / FLUSHALL /
// CLIENT SETNAME / GETNAME; every reply is compared with a model of 16
// independent maps and per-connection session records.
func VerifH_c14_programs() {
	VerifSetup()
	disp := vNewServer()
	conns := []*clientState{vNewClientOn(disp), vNewClientOn(disp)}
	cm := []*vConnModel{{}, {}}
	var dbs [16]map[string]string
	for i := range dbs {
		dbs[i] = map[string]string{}
	}
	indexes := []int{0, 1, 15}
	// prelude: the first connection works in database 15, the second in 0
	vCmd(conns[0], "SELECT", "15")
	vCmd(conns[0], "SET", "k", "a15")
	cm[0].db = 15
	dbs[15]["k"] = "a15"
	vCmd(conns[1], "SET", "k", "b0")
	dbs[0]["k"] = "b0"
	// quick: programs of exactly 2 steps; thorough: exactly 3 (shorter programs
	// are prefixes of these: every step is checked as it executes)
	n := 2 + vTier()
	for st := 0; st < n; st++ {
		if len(conns) == 2 && vBool("open-third") {
			conns = append(conns, vNewClientOn(disp))
			cm = append(cm, &vConnModel{})
		}
		w := vChoice("who", len(conns))
		c, m := conns[w], cm[w]
		switch vChoice("op", 9) {
		case 0:
			idx := indexes[vChoice("idx", len(indexes))]
			vAssert("select-ok", vIsOK(vCmd(c, "SELECT", vItoa(idx))))
			m.db = idx
		case 1:
			v := vStringN("v", 1)
			vAssert("set-ok", vIsOK(vCmd(c, "SET", "k", v)))
			dbs[m.db]["k"] = v
		case 2:
			g := vCmd(c, "GET", "k")
			if v, ok := dbs[m.db]["k"]; ok {
				vAssert("get-own-database", vIsBulk(g, v))
			} else {
				vAssert("get-missing-in-own-database", vIsNil(g))
			}
		case 3:
			r := vCmd(c, "DEL", "k")
			if _, ok := dbs[m.db]["k"]; ok {
				vAssert("del-1", vIsInt(r, 1))
				delete(dbs[m.db], "k")
			} else {
				vAssert("del-0", vIsInt(r, 0))
			}
		case 4:
			vAssert("dbsize-own-database", vIsInt(vCmd(c, "DBSIZE"), int64(len(dbs[m.db]))))
		case 5:
			vAssert("flushdb-ok", vIsOK(vCmd(c, "FLUSHDB")))
			dbs[m.db] = map[string]string{}
		case 6:
			vAssert("flushall-ok", vIsOK(vCmd(c, "FLUSHALL")))
			for i := range dbs {
				dbs[i] = map[string]string{}
			}
		case 7:
			nm := []string{"alice", "bob"}[vChoice("name", 2)]
			vAssert("setname-ok", vIsOK(vCmd(c, "CLIENT", "SETNAME", nm)))
			m.name = nm
		case 8:
			g := vCmd(c, "CLIENT", "GETNAME")
			if m.name == "" {
				vAssert("getname-unset-nil", vIsNil(g))
			} else {
				vAssert("getname-own", vIsBulk(g, m.name))
			}
		}
		// frame condition: session records of every connection
		for i := range conns {
			vAssert("session-selected-db-per-connection", conns[i].selectedDb == cm[i].db)
			vAssert("session-name-per-connection", conns[i].name == cm[i].name)
		}
	}
	// final cross-check: every connection reads what the model holds for its database
	for i := range conns {
		g := vCmd(conns[i], "GET", "k")
		if v, ok := dbs[cm[i].db]["k"]; ok {
			vAssert("final-get", vIsBulk(g, v))
		} else {
			vAssert("final-get-missing", vIsNil(g))
		}
		vAssert("final-dbsize", vIsInt(vCmd(conns[i], "DBSIZE"), int64(len(dbs[cm[i].db]))))
	}
}

// VerifH_c14_multi_select: SELECT queued inside a transaction takes effect
// when EXEC runs it: the commands queued after it read and write the newly
// selected database (not the one selected when they were queued), the
// connection stays in that database afterwards, and a discarded transaction
// leaves the selection alone.  A second connection observes each database.
func VerifH_c14_multi_select() {
	VerifSetup()
	disp := vNewServer()
	c := vNewClientOn(disp)
	obs := vNewClientOn(disp)
	var dbs [16]map[string]string
	for i := range dbs {
		dbs[i] = map[string]string{}
	}
	indexes := []int{0, 1, 15}
	vCmd(c, "SELECT", "15")
	vCmd(c, "SET", "k", "a15")
	dbs[15]["k"] = "a15"
	vCmd(obs, "SET", "k", "b0")
	dbs[0]["k"] = "b0"
	cur := 15
	discard := vBool("discard")
	vAssert("multi-ok", vIsOK(vCmd(c, "MULTI")))
	n := 3 + vTier()
	type step struct {
		op, idx int
		v       string
	}
	var steps []step
	for i := 0; i < n; i++ {
		s := step{op: vChoice("op", 6)}
		var q respValue
		switch s.op {
		case 0:
			s.idx = indexes[vChoice("idx", len(indexes))]
			q = vCmd(c, "SELECT", vItoa(s.idx))
		case 1:
			s.v = "v" + vItoa(i)
			q = vCmd(c, "SET", "k", s.v)
		case 2:
			q = vCmd(c, "GET", "k")
		case 3:
			q = vCmd(c, "DEL", "k")
		case 4:
			q = vCmd(c, "DBSIZE")
		case 5:
			q = vCmd(c, "FLUSHDB")
		}
		vAssert("queued", vIsQueued(q))
		vAssert("queueing-does-not-select", c.selectedDb == 15)
		steps = append(steps, s)
	}
	if discard {
		vAssert("discard-ok", vIsOK(vCmd(c, "DISCARD")))
		vAssert("discarded-select-has-no-effect", c.selectedDb == 15 && vIsBulk(vCmd(c, "GET", "k"), "a15"))
		return
	}
	r := vCmd(c, "EXEC")
	a, ok := vArrayOf(r)
	vAssert("exec-one-reply-per-step", ok && len(a) == n)
	if !ok || len(a) != n {
		return
	}
	for i, s := range steps {
		switch s.op {
		case 0:
			vAssert("exec-select-ok", vIsOK(a[i]))
			cur = s.idx
		case 1:
			vAssert("exec-set-ok", vIsOK(a[i]))
			dbs[cur]["k"] = s.v
		case 2:
			if v, ok := dbs[cur]["k"]; ok {
				vAssert("exec-get-reads-the-selected-database", vIsBulk(a[i], v))
			} else {
				vAssert("exec-get-missing-in-the-selected-database", vIsNil(a[i]))
			}
		case 3:
			if _, ok := dbs[cur]["k"]; ok {
				vAssert("exec-del-1", vIsInt(a[i], 1))
				delete(dbs[cur], "k")
			} else {
				vAssert("exec-del-0", vIsInt(a[i], 0))
			}
		case 4:
			vAssert("exec-dbsize-of-the-selected-database", vIsInt(a[i], int64(len(dbs[cur]))))
		case 5:
			vAssert("exec-flushdb-ok", vIsOK(a[i]))
			dbs[cur] = map[string]string{}
		}
	}
	vAssert("connection-stays-in-the-last-selected-database", c.selectedDb == cur)
	// the observer reads every database
	for _, idx := range indexes {
		vCmd(obs, "SELECT", vItoa(idx))
		g := vCmd(obs, "GET", "k")
		if v, ok := dbs[idx]["k"]; ok {
			vAssert("observer-sees-the-write-in-the-right-database", vIsBulk(g, v))
		} else {
			vAssert("observer-sees-no-key-where-none-was-written", vIsNil(g))
		}
	}
	// and the connection itself goes on in the selected database
	g := vCmd(c, "GET", "k")
	if v, ok := dbs[cur]["k"]; ok {
		vAssert("after-exec-own-database", vIsBulk(g, v))
	} else {
		vAssert("after-exec-own-database-missing", vIsNil(g))
	}
}

// VerifH_c14_flush_blocked: a connection blocked in a blocking pop while its
// database is flushed (by FLUSHDB from a connection in the same database or
// FLUSHALL from another one) is still served by the next push into the key it
// waits on: the flush empties the data, not the set of waiting clients.
func VerifH_c14_flush_blocked() {
	VerifSetup()
	disp := vNewServer()
	a := vNewClientOn(disp)
	b := vNewClientOn(disp)
	vCmd(a, "SELECT", "1")
	vCmd(a, "SET", "other", "1")
	flushAll := vBool("flushall")
	if !flushAll {
		vCmd(b, "SELECT", "1")
	}
	stage := 0
	vSetEnv(func(point string) bool {
		if point != "select" || stage > 0 {
			return false
		}
		stage = 1
		if flushAll {
			vAssert("flushall-ok", vIsOK(vCmd(b, "FLUSHALL")))
			vCmd(b, "SELECT", "1")
		} else {
			vAssert("flushdb-ok", vIsOK(vCmd(b, "FLUSHDB")))
		}
		vAssert("flushed-database-is-empty", vIsInt(vCmd(b, "DBSIZE"), 0))
		vCmd(b, "RPUSH", "q", "v")
		return true
	})
	var r respValue
	parked := vRunBlockingOn(a, func() { r = vCmd(a, "BLPOP", "q", "0") })
	vAssert("blocked-client-served-after-the-flush", !parked)
	if parked {
		vReleaseWaiter(a)
		return
	}
	arr, ok := vArrayOf(r)
	vAssert("blocked-client-reply", ok && len(arr) == 2 && vIsBulk(arr[1], "v"))
	vAssert("element-consumed", vIsInt(vCmd(b, "LLEN", "q"), 0))
}
