//go:build verif

package redisemu

// C07 — expiry.  The clock is a harness variable (vSetNow): a key is given a
// deadline, the clock is moved past it while the object is still stored, and
// every command must treat the key exactly like a missing one.

const vT0 = 1700000000

// vRespEqAny compares two replies structurally (RESP2 shapes).
func vRespEqAny(a, b respValue) bool {
	switch x := a.data.(type) {
	case respErrorString:
		// error texts may name the command; the class matters
		_, ok := b.data.(respErrorString)
		return ok
	case respArray:
		y, ok := b.data.(respArray)
		if !ok || len(x) != len(y) {
			return false
		}
		same := true
		for i := range x {
			same = vAnd(same, vRespEqAny(x[i], y[i]))
		}
		return same
	}
	return vRespEq(a, b)
}

var vRandomCommands = map[string]bool{"RANDOMKEY": true, "SRANDMEMBER": true, "HRANDFIELD": true, "SCAN": true, "KEYS": true, "SSCAN": true, "HSCAN": true}

func vBuildNeighbours(cs *clientState, k2v string) {
	vCmd(cs, "SET", "k2", "s"+k2v)
	vCmd(cs, "RPUSH", "k3", "x1", "x2")
	vCmd(cs, "SADD", "k4", "m1", "m3")
}

// VerifH_c07_expired_is_absent: for every command template, the reply and
// the resulting state with 'k' expired-but-still-stored equal those with
// 'k' missing.
func VerifH_c07_expired_is_absent() { vGoneIsAbsent(false) }

// VerifH_c06_unlinked_is_absent: the same relation for a key that was
// UNLINKed (logically deleted, its object possibly still in the table): every
// command replies and leaves the keyspace exactly as if the key were missing.
func VerifH_c06_unlinked_is_absent() { vGoneIsAbsent(true) }

func vGoneIsAbsent(unlink bool) {
	VerifSetup()
	vSetNow(vT0, 0)
	a := vNewClient() // k will be expired but stored
	b := vNewClient() // k missing
	k2v := vStringN("k2v", 1)
	vBuildNeighbours(a, k2v)
	vBuildNeighbours(b, k2v)
	kind := 1 + vChoice("kind", 4)
	vSeed(a, "k", kind, "v")
	if unlink {
		vAssert("unlink-1", vIsInt(vCmd(a, "UNLINK", "k"), 1))
	} else {
		vAssert("expire-set", vIsInt(vCmd(a, "EXPIRE", "k", "100"), 1))
		// the deadline passes; the object is still in the table
		vSetNow(vT0+200, 0)
	}
	_, stored := a.ds.data.get("k")
	vAssume(stored)
	t := vL2Commands[vChoice("cmd", len(vL2Commands))]
	args := make([]string, len(t))
	for i, s := range t {
		switch s {
		case "$K":
			args[i] = "k"
		case "$F":
			args[i] = []string{"1.5", "inf", "nan"}[vChoice("f", 3)]
		case "$S":
			args[i] = vStringN("s", 1)
		case "$I":
			if vL2TimeArg[t[0]] || (t[0] == "SET" && i > 2) || (t[0] == "GETEX" && i > 1) || (t[0] == "RESTORE" && i == 2) {
				args[i] = vL2TimeValues[vChoice("t", len(vL2TimeValues))]
			} else {
				d := vDecimal("i")
				n := vDecimalOf(d)
				vAssume(n > -64 && n < 64)
				args[i] = d
			}
		default:
			args[i] = s
		}
	}
	var ra, rb respValue
	pa, ma := vCatch(func() { ra = vCmd(a, args...) })
	pb, mb := vCatch(func() { rb = vCmd(b, args...) })
	vAssert("expired-no-panic", !pa && !pb)
	if pa || pb {
		vNote(ma + mb)
		return
	}
	if !vRandomCommands[t[0]] {
		vAssert("expired-key-reply-equals-missing-key-reply", vRespEqAny(ra, rb))
	} else if t[0] == "RANDOMKEY" || t[0] == "KEYS" || t[0] == "SCAN" {
		// must not return / list the expired key
		leaks := false
		var scanFor func(v respValue)
		scanFor = func(v respValue) {
			if vIsBulk(v, "k") {
				leaks = true
			}
			if arr, ok := v.data.(respArray); ok {
				for _, e := range arr {
					scanFor(e)
				}
			}
		}
		scanFor(ra)
		// (the command may itself have created k: only reads are checked)
		vAssert("expired-key-not-listed", !leaks)
	}
	for _, k := range vL2Keys {
		vAssert("expired-key-post-state-equals-missing-key-post-state", vSnapEq(vSnapKey(a, k), vSnapKey(b, k)))
	}
	vAssert("expired-dbsize", vRespEqAny(vCmd(a, "DBSIZE"), vCmd(b, "DBSIZE")))
}

// VerifH_c07_ttl_rules: what each command does to an existing deadline.
func VerifH_c07_ttl_rules() {
	VerifSetup()
	vSetNow(vT0, 0)
	cs := vNewClient()
	type rule struct {
		kind int
		args []string
		keep bool // true: deadline kept; false: cleared
	}
	rules := []rule{
		{preString, []string{"APPEND", "k", "x"}, true}, {preString, []string{"INCR", "k"}, true}, {preString, []string{"SETRANGE", "k", "0", "z"}, true},
		{preString, []string{"SETBIT", "k", "1", "1"}, true}, {preString, []string{"BITFIELD", "k", "SET", "u8", "0", "1"}, true},
		{preString, []string{"SET", "k", "n", "KEEPTTL"}, true}, {preString, []string{"GETEX", "k"}, true}, {preString, []string{"GET", "k"}, true},
		{preString, []string{"SET", "k", "n"}, false}, {preString, []string{"GETSET", "k", "n"}, false}, {preString, []string{"MSET", "k", "n"}, false},
		{preString, []string{"GETEX", "k", "PERSIST"}, false}, {preString, []string{"PERSIST", "k"}, false}, {preString, []string{"BITOP", "NOT", "k", "k2"}, false},
		{preString, []string{"SET", "k", "n", "XX", "GET"}, false},
		{preList, []string{"LPUSH", "k", "x"}, true}, {preList, []string{"LPOP", "k"}, true}, {preList, []string{"LSET", "k", "0", "z"}, true}, {preList, []string{"LTRIM", "k", "0", "0"}, true},
		{preList, []string{"LINSERT", "k", "BEFORE", "e1", "z"}, true}, {preList, []string{"SORT", "k2l", "STORE", "k"}, false}, {preList, []string{"SET", "k", "n"}, false},
		{preHash, []string{"HSET", "k", "f9", "x"}, true}, {preHash, []string{"HINCRBY", "k", "n", "1"}, true}, {preHash, []string{"HDEL", "k", "nofield"}, true},
		{preSet, []string{"SADD", "k", "m9"}, true}, {preSet, []string{"SREM", "k", "nomember"}, true}, {preSet, []string{"SUNIONSTORE", "k", "k4", "k4"}, false},
		{preSet, []string{"SDIFFSTORE", "k", "k4", "k5"}, false}, {preSet, []string{"SINTERSTORE", "k", "k4", "k4"}, false},
		// SET ... KEEPTTL keeps the deadline of whatever it overwrites
		{preList, []string{"SET", "k", "n", "KEEPTTL"}, true}, {preHash, []string{"SET", "k", "n", "KEEPTTL"}, true}, {preSet, []string{"SET", "k", "n", "XX", "KEEPTTL"}, true},
		{preHash, []string{"SET", "k", "n"}, false}, {preSet, []string{"SET", "k", "n", "XX"}, false},
		// more in-place writers / replacing writers of every type
		{preList, []string{"RPUSH", "k", "x", "y"}, true}, {preList, []string{"RPOPLPUSH", "k", "k"}, true}, {preList, []string{"LMOVE", "k2l", "k", "LEFT", "RIGHT"}, true},
		{preList, []string{"LREM", "k", "0", "nosuch"}, true}, {preList, []string{"LPUSHX", "k", "x"}, true},
		{preHash, []string{"HSETNX", "k", "f9", "x"}, true}, {preHash, []string{"HMSET", "k", "f1", "x"}, true}, {preHash, []string{"HINCRBYFLOAT", "k", "n", "1.5"}, true},
		{preSet, []string{"SMOVE", "k4", "k", "m1"}, true}, {preSet, []string{"SMOVE", "k", "k4", "nosuch"}, true},
		{preString, []string{"INCRBYFLOAT", "k", "1.5"}, true}, {preString, []string{"DECRBY", "k", "2"}, true}, {preString, []string{"SETBIT", "k", "9", "0"}, true},
		{preString, []string{"COPY", "k2", "k", "REPLACE"}, false}, {preString, []string{"RENAME", "k2", "k"}, false}, {preList, []string{"COPY", "k2l", "k", "REPLACE"}, false},
		{preString, []string{"SETNX", "k", "n"}, true}, {preString, []string{"MSETNX", "k", "n"}, true}, {preString, []string{"SET", "k", "n", "NX"}, true},
		{preString, []string{"TOUCH", "k"}, true}, {preString, []string{"TYPE", "k"}, true}, {preString, []string{"DUMP", "k"}, true}, {preString, []string{"OBJECT", "ENCODING", "k"}, true},
	}
	r := rules[vChoice("rule", len(rules))]
	vCmd(cs, "SET", "k2", "\xf0")
	vCmd(cs, "RPUSH", "k2l", "3", "1")
	vCmd(cs, "SADD", "k4", "m1")
	vSeed(cs, "k", r.kind, "5")
	vAssert("expire-set", vIsInt(vCmd(cs, "EXPIRE", "k", "1000"), 1))
	before := vSnapKey(cs, "k")
	vCmd(cs, r.args...)
	after := vSnapKey(cs, "k")
	vAssert("key-still-there", after.exists)
	if r.keep {
		vAssert("in-place-modification-keeps-deadline", after.exp.Equal(before.exp))
		vAssert("ttl-still-reported", vIsInt(vCmd(cs, "TTL", "k"), 1000))
	} else {
		vAssert("replacing-command-clears-deadline", vIsInt(vCmd(cs, "TTL", "k"), -1))
	}
}

// VerifH_c07_expire_arith: EXPIRE/PEXPIRE/EXPIREAT/PEXPIREAT with NX/XX/GT/LT
// and TTL/PTTL/EXPIRETIME/PEXPIRETIME read-back, for symbolic arguments in
// a range where the deadline is representable.
func VerifH_c07_expire_arith() {
	VerifSetup()
	vSetNow(vT0, 0)
	cs := vNewClient()
	exists := vBool("exists")
	hasTTL := false
	var curMs int64 // current deadline (ms since epoch) when hasTTL
	if exists {
		vCmd(cs, "SET", "k", "v")
		if vBool("hasttl") {
			vCmd(cs, "PEXPIREAT", "k", vItoa(vT0+500)+"000")
			hasTTL = true
			curMs = (vT0 + 500) * 1000
		}
	}
	ns := vDecimal("n")
	n := vDecimalOf(ns)
	vAssume(n > -3000 && n < 3000)
	cmd := vChoice("cmd", 4)
	name := []string{"EXPIRE", "PEXPIRE", "EXPIREAT", "PEXPIREAT"}[cmd]
	var whenMs int64
	arg := ns
	switch cmd {
	case 0:
		whenMs = vT0*1000 + n*1000
	case 1:
		whenMs = vT0*1000 + n
	case 2: // absolute seconds around now
		whenMs = (vT0 + n) * 1000
		arg = "" // built below
	case 3:
		whenMs = vT0*1000 + n
		arg = ""
	}
	if cmd >= 2 {
		// absolute forms take the absolute value; keep it symbolic through a second input
		as := vDecimal("abs")
		a := vDecimalOf(as)
		if cmd == 2 {
			vAssume(a == vT0+n)
		} else {
			vAssume(a == vT0*1000+n)
		}
		arg = as
	}
	cond := vChoice("cond", 5)
	args := []string{name, "k", arg}
	if cond > 0 {
		args = append(args, []string{"", "NX", "XX", "GT", "LT"}[cond])
	}
	r := vCmd(cs, args...)
	if !exists {
		vAssert("expire-missing-0", vIsInt(r, 0))
		return
	}
	apply := true
	switch cond {
	case 1:
		apply = !hasTTL
	case 2:
		apply = hasTTL
	case 3:
		apply = hasTTL && whenMs > curMs
	case 4:
		apply = !hasTTL || whenMs < curMs
	}
	if !apply {
		vAssert("expire-condition-not-met-0", vIsInt(r, 0))
		if hasTTL {
			vAssert("expire-condition-not-met-deadline-kept", vIsInt(vCmd(cs, "PEXPIRETIME", "k"), curMs))
		} else {
			vAssert("expire-condition-not-met-still-persistent", vIsInt(vCmd(cs, "TTL", "k"), -1))
		}
		return
	}
	vAssert("expire-1", vIsInt(r, 1))
	if whenMs == vT0*1000 {
		return // exactly "now": decided by the next clock tick, not checked under a frozen clock
	}
	if whenMs < vT0*1000 {
		// a deadline that is not in the future deletes the key
		vAssert("expire-past-deletes", vIsInt(vCmd(cs, "EXISTS", "k"), 0))
		vAssert("ttl-missing--2", vIsInt(vCmd(cs, "TTL", "k"), -2))
		return
	}
	vAssert("pexpiretime-reports-deadline", vIsInt(vCmd(cs, "PEXPIRETIME", "k"), whenMs))
	vAssert("pttl-reports-remaining", vIsInt(vCmd(cs, "PTTL", "k"), whenMs-vT0*1000))
	et, _ := vIntOf(vCmd(cs, "EXPIRETIME", "k"))
	vAssert("expiretime-reports-deadline", et*1000 <= whenMs && whenMs < et*1000+1000)
	ttl, _ := vIntOf(vCmd(cs, "TTL", "k"))
	rem := whenMs - vT0*1000
	vAssert("ttl-within-one-second", ttl*1000 <= rem+500 && ttl*1000 >= rem-999)
}

// VerifH_c07_deadline_boundary: a key is visible one millisecond before its
// deadline and gone from the deadline on (clock moved by the harness).
func VerifH_c07_deadline_boundary() {
	VerifSetup()
	vSetNow(vT0, 0)
	cs := vNewClient()
	kind := 1 + vChoice("kind", 4)
	vSeed(cs, "k", kind, "v")
	var whenMs int64
	switch vChoice("how", 4) {
	case 0:
		vCmd(cs, "EXPIRE", "k", "10")
		whenMs = (vT0 + 10) * 1000
	case 1:
		vCmd(cs, "PEXPIRE", "k", "1500")
		whenMs = vT0*1000 + 1500
	case 2:
		vCmd(cs, "EXPIREAT", "k", vItoa(vT0+7))
		whenMs = (vT0 + 7) * 1000
	case 3:
		vCmd(cs, "PEXPIREAT", "k", vItoa(vT0+2)+"250")
		whenMs = (vT0+2)*1000 + 250
	}
	vSetNow((whenMs-1)/1000, ((whenMs-1)%1000)*1000000)
	vAssert("visible-before-deadline", vIsInt(vCmd(cs, "EXISTS", "k"), 1))
	vAssert("pttl-one-ms-left", vIsInt(vCmd(cs, "PTTL", "k"), 1))
	// Redis expires a key when now > deadline (millisecond granularity)
	vSetNow((whenMs+1)/1000, ((whenMs+1)%1000)*1000000)
	vAssert("gone-at-deadline", vIsInt(vCmd(cs, "EXISTS", "k"), 0))
	vAssert("ttl-gone--2", vIsInt(vCmd(cs, "TTL", "k"), -2))
	vAssert("type-none-at-deadline", vTypeOf(cs, "k") == "none")
	vAssert("dbsize-at-deadline", vIsInt(vCmd(cs, "DBSIZE"), 0))
}

// VerifH_c07_expire_extreme: TTL arguments whose deadline is not
// representable must be refused, never turned into a wrong deadline.
func VerifH_c07_expire_extreme() {
	VerifSetup()
	vSetNow(vT0, 0)
	cs := vNewClient()
	vCmd(cs, "SET", "k", "v")
	vals := []string{"9223372036854775807", "9223372036854775", "92233720368547759", "-9223372036854775808", "9223372036", "18446744073"}
	v := vals[vChoice("v", len(vals))]
	form := vChoice("form", 5)
	var r respValue
	switch form {
	case 0:
		r = vCmd(cs, "EXPIRE", "k", v)
	case 1:
		r = vCmd(cs, "PEXPIRE", "k", v)
	case 2:
		r = vCmd(cs, "SET", "k", "v", "EX", v)
	case 3:
		r = vCmd(cs, "SETEX", "k", v, "v")
	case 4:
		r = vCmd(cs, "GETEX", "k", "EX", v)
	}
	if vIsErr(r) {
		vAssert("extreme-ttl-error-leaves-key", vIsBulk(vCmd(cs, "GET", "k"), "v") && vIsInt(vCmd(cs, "TTL", "k"), -1))
		return
	}
	// accepted: then the key must behave as the request says - a positive TTL
	// leaves the key visible now, and the reported TTL is not in the past
	if v[0] != '-' {
		vAssert("extreme-positive-ttl-key-visible", vIsInt(vCmd(cs, "EXISTS", "k"), 1))
		ttl, _ := vIntOf(vCmd(cs, "TTL", "k"))
		vAssert("extreme-positive-ttl-not-shortened", ttl > 1000000)
	}
}
