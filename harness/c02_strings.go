//go:build verif

package redisemu

// C02 — string and counter commands behave as Redis 7 (t_string.c).
// Every harness drives the real dispatcher (grammar parser, handler, store)
// with symbolic values and compares replies and resulting values with a
// short reference model.

const (
	preAbsent = iota
	preString
	preList
	preHash
	preSet
)

// vSeed puts key k into one of the five type states using real commands.
// For preString the value is val.
func vSeed(cs *clientState, k string, kind int, val string) {
	switch kind {
	case preString:
		vCmd(cs, "SET", k, val)
	case preList:
		vCmd(cs, "RPUSH", k, "e1", "e2")
	case preHash:
		vCmd(cs, "HSET", k, "f1", "v1")
	case preSet:
		vCmd(cs, "SADD", k, "m1")
	}
}

// vTTLState: -2 missing, -1 no expiry, 1 has expiry.
func vTTLState(cs *clientState, k string) int64 {
	r := vCmd(cs, "PTTL", k)
	n, _ := vIntOf(r)
	if n >= 0 {
		return 1
	}
	return n
}

func vTypeOf(cs *clientState, k string) string {
	r := vCmd(cs, "TYPE", k)
	s, _ := r.data.(respSimpleString)
	return string(s)
}

// VerifH_c02_smoke: SET then GET returns the same bytes (binary safe).
func VerifH_c02_smoke() {
	VerifSetup()
	cs := vNewClient()
	val := vString("val", 3+2*vTier())
	r := vCmd(cs, "SET", "k", val)
	vAssert("set-ok", vIsOK(r))
	g := vCmd(cs, "GET", "k")
	vAssert("get-eq", vIsBulk(g, val))
	vObserve("val", val)
	vReach("nonempty", len(val) == 3)
}

// VerifH_c02_set: SET with NX|XX, GET, KEEPTTL against setGenericCommand.
func VerifH_c02_set() {
	VerifSetup()
	cs := vNewClient()
	kind := vChoice("kind", 5)
	old := vString("old", 2+2*vTier())
	vSeed(cs, "k", kind, old)
	hadTTL := false
	if kind != preAbsent && vBool("ttl") {
		vCmd(cs, "EXPIRE", "k", "1000")
		hadTTL = true
	}
	nv := vString("new", 2+2*vTier())
	cond := vChoice("cond", 3) // 0 none, 1 NX, 2 XX
	get := vBool("get")
	keep := vBool("keepttl")
	upper := vBool("upper")
	args := []string{"SET", "k", nv}
	if cond == 1 {
		if upper {
			args = append(args, "NX")
		} else {
			args = append(args, "nx")
		}
	} else if cond == 2 {
		args = append(args, "XX")
	}
	if get {
		if upper {
			args = append(args, "GET")
		} else {
			args = append(args, "Get")
		}
	}
	if keep {
		args = append(args, "KEEPTTL")
	}
	r := vCmd(cs, args...)

	exists := kind != preAbsent
	// reference (setGenericCommand / getGenericCommand)
	if get && exists && kind != preString {
		vAssert("set-get-wrongtype", vIsErr(r))
		vAssert("set-get-wrongtype-inert", vTypeOf(cs, "k") != "string")
		return
	}
	written := !(cond == 1 && exists) && !(cond == 2 && !exists)
	if get {
		if kind == preString {
			vAssert("set-get-old", vIsBulk(r, old))
		} else {
			vAssert("set-get-nil", vIsNil(r))
		}
	} else if written {
		vAssert("set-ok", vIsOK(r))
	} else {
		vAssert("set-notwritten-nil", vIsNil(r))
	}
	g := vCmd(cs, "GET", "k")
	if written {
		vAssert("set-value", vIsBulk(g, nv))
		wantTTL := int64(-1)
		if keep && hadTTL {
			wantTTL = 1
		}
		vAssert("set-ttl", vTTLState(cs, "k") == wantTTL)
	} else {
		switch kind {
		case preAbsent:
			vAssert("set-xx-missing-stays-missing", vIsNil(g))
		case preString:
			vAssert("set-nx-keeps-old", vIsBulk(g, old))
		default:
			vAssert("set-nx-keeps-type", vIsErr(g))
		}
		if exists {
			want := int64(-1)
			if hadTTL {
				want = 1
			}
			vAssert("set-notwritten-ttl", vTTLState(cs, "k") == want)
		}
	}
	vReach("set-nx-blocked", cond == 1 && exists)
	vReach("set-written-keepttl", written && keep && hadTTL)
}

// VerifH_c02_family: SETNX, GETSET, GETDEL, APPEND, STRLEN on every key type.
func VerifH_c02_family() {
	VerifSetup()
	cs := vNewClient()
	kind := vChoice("kind", 5)
	old := vString("old", 2+2*vTier())
	vSeed(cs, "k", kind, old)
	nv := vString("new", 2+2*vTier())
	exists := kind != preAbsent
	upper := vBool("upper")
	switch vChoice("cmd", 5) {
	case 0: // SETNX: 1 if set, 0 if the key exists (any type)
		name := "setnx"
		if upper {
			name = "SETNX"
		}
		r := vCmd(cs, name, "k", nv)
		if exists {
			vAssert("setnx-exists-0", vIsInt(r, 0))
			if kind == preString {
				vAssert("setnx-keeps", vIsBulk(vCmd(cs, "GET", "k"), old))
			} else {
				vAssert("setnx-keeps-type", vTypeOf(cs, "k") != "string")
			}
		} else {
			vAssert("setnx-new-1", vIsInt(r, 1))
			vAssert("setnx-value", vIsBulk(vCmd(cs, "GET", "k"), nv))
		}
	case 1: // GETSET
		r := vCmd(cs, "GETSET", "k", nv)
		if exists && kind != preString {
			vAssert("getset-wrongtype", vIsErr(r))
			vAssert("getset-wrongtype-inert", vTypeOf(cs, "k") != "string")
		} else {
			if exists {
				vAssert("getset-old", vIsBulk(r, old))
			} else {
				vAssert("getset-nil", vIsNil(r))
			}
			vAssert("getset-value", vIsBulk(vCmd(cs, "GET", "k"), nv))
		}
	case 2: // GETDEL
		r := vCmd(cs, "GETDEL", "k")
		if exists && kind != preString {
			vAssert("getdel-wrongtype", vIsErr(r))
			vAssert("getdel-wrongtype-inert", vIsInt(vCmd(cs, "EXISTS", "k"), 1))
		} else {
			if exists {
				vAssert("getdel-old", vIsBulk(r, old))
			} else {
				vAssert("getdel-nil", vIsNil(r))
			}
			vAssert("getdel-gone", vIsInt(vCmd(cs, "EXISTS", "k"), 0))
		}
	case 3: // APPEND
		r := vCmd(cs, "APPEND", "k", nv)
		if exists && kind != preString {
			vAssert("append-wrongtype", vIsErr(r))
			vAssert("append-wrongtype-inert", vTypeOf(cs, "k") != "string")
		} else {
			want := nv
			if exists {
				want = old + nv
			}
			vAssert("append-len", vIsInt(r, int64(len(want))))
			vAssert("append-value", vIsBulk(vCmd(cs, "GET", "k"), want))
		}
	case 4: // STRLEN
		r := vCmd(cs, "STRLEN", "k")
		if exists && kind != preString {
			vAssert("strlen-wrongtype", vIsErr(r))
		} else if exists {
			vAssert("strlen-len", vIsInt(r, int64(len(old))))
		} else {
			vAssert("strlen-missing-0", vIsInt(r, 0))
		}
	}
}

// VerifH_c02_mset: MSET / MSETNX / MGET; MSETNX is all-or-nothing.
func VerifH_c02_mset() {
	VerifSetup()
	cs := vNewClient()
	// pre-state of k2 decides whether MSETNX may write
	kind2 := vChoice("kind2", 3) // absent, string, list
	old2 := vString("old2", 1+2*vTier())
	switch kind2 {
	case 1:
		vCmd(cs, "SET", "k2", old2)
	case 2:
		vCmd(cs, "RPUSH", "k2", "e")
	}
	v1 := vString("v1", 1+2*vTier())
	v2 := vString("v2", 1+2*vTier())
	nx := vBool("nx")
	upper := vBool("upper")
	name := "MSET"
	if nx {
		if upper {
			name = "MSETNX"
		} else {
			name = "msetnx"
		}
	}
	sameKey := vBool("samekey") // MSET k1 a k1 b: last wins
	kb := "k2"
	if sameKey {
		kb = "k1"
	}
	r := vCmd(cs, name, "k1", v1, kb, v2)
	blocked := nx && !sameKey && kind2 != 0
	if nx {
		if blocked {
			vAssert("msetnx-0", vIsInt(r, 0))
		} else {
			vAssert("msetnx-1", vIsInt(r, 1))
		}
	} else {
		vAssert("mset-ok", vIsOK(r))
	}
	m := vCmd(cs, "MGET", "k1", "k2", "nokey")
	a, ok := vArrayOf(m)
	vAssert("mget-shape", ok && len(a) == 3)
	if !ok || len(a) != 3 {
		return
	}
	vAssert("mget-missing-nil", vIsNil(a[2]))
	if blocked {
		// nothing at all may have been written
		vAssert("msetnx-none-k1", vIsNil(a[0]))
		if kind2 == 1 {
			vAssert("msetnx-none-k2", vIsBulk(a[1], old2))
		} else {
			vAssert("msetnx-none-k2-list", vIsNil(a[1]) && vTypeOf(cs, "k2") == "list")
		}
	} else if sameKey {
		vAssert("mset-last-wins", vIsBulk(a[0], v2))
	} else {
		vAssert("mset-k1", vIsBulk(a[0], v1))
		vAssert("mset-k2", vIsBulk(a[1], v2))
	}
	vReach("msetnx-blocked", blocked)
}

// refCanonInt recognises Redis' string2ll for texts of up to 3 bytes.
func refCanonInt(s string) (int64, bool) {
	// canonical decimal text of a small integer (up to 6 characters: no overflow)
	if len(s) == 0 || len(s) > 6 {
		return 0, false
	}
	neg := s[0] == '-'
	digits := s
	if neg {
		digits = s[1:]
	}
	if len(digits) == 0 || (len(digits) > 1 && digits[0] == '0') || (neg && digits[0] == '0') {
		return 0, false
	}
	var n int64
	for i := 0; i < len(digits); i++ {
		c := digits[i]
		if c < '0' || c > '9' {
			return 0, false
		}
		n = n*10 + int64(c-'0')
	}
	if neg {
		n = -n
	}
	return n, true
}

// VerifH_c02_counter: INCR/DECR/INCRBY/DECRBY for all int64 old values and
// deltas (exact overflow), non-integers, and wrong types.
func VerifH_c02_counter() {
	VerifSetup()
	cs := vNewClient()
	pre := vChoice("pre", 4) // 0 absent, 1 canonical decimal, 2 short arbitrary text, 3 list
	var p int64
	var old string
	isInt := true
	switch pre {
	case 1:
		old = vDecimal("p")
		p = vDecimalOf(old)
		vCmd(cs, "SET", "k", old)
	case 2:
		old = vString("s", 2+2*vTier())
		p, isInt = refCanonInt(old)
		vCmd(cs, "SET", "k", old)
	case 3:
		vCmd(cs, "RPUSH", "k", "1")
	}
	withTTL := false
	if (pre == 1 || pre == 2) && vBool("ttl") {
		vCmd(cs, "EXPIRE", "k", "1000")
		withTTL = true
	}
	var d int64
	var r respValue
	negOverflow := false
	switch vChoice("cmd", 4) {
	case 0:
		d = 1
		r = vCmd(cs, "INCR", "k")
	case 1:
		d = -1
		r = vCmd(cs, "DECR", "k")
	case 2:
		ds := vDecimal("d")
		d = vDecimalOf(ds)
		r = vCmd(cs, "INCRBY", "k", ds)
	case 3:
		ds := vDecimal("d")
		dd := vDecimalOf(ds)
		// Redis rejects DECRBY LLONG_MIN ("decrement would overflow")
		negOverflow = dd == -9223372036854775808
		d = -dd
		r = vCmd(cs, "DECRBY", "k", ds)
	}
	if pre == 3 {
		vAssert("counter-wrongtype", vIsErr(r))
		vAssert("counter-wrongtype-inert", vTypeOf(cs, "k") == "list")
		return
	}
	sum := p + d
	overflow := ((p^sum)&(d^sum)) < 0 || negOverflow
	g := vCmd(cs, "GET", "k")
	if !isInt {
		vAssert("counter-nonint-error", vIsErr(r))
		vAssert("counter-nonint-unchanged", vIsBulk(g, old))
		return
	}
	if overflow {
		vAssert("counter-overflow-error", vIsErr(r))
		if pre == 0 {
			vAssert("counter-overflow-still-missing", vIsNil(g))
		} else {
			vAssert("counter-overflow-unchanged", vIsBulk(g, old))
		}
	} else {
		vAssert("counter-reply", vIsInt(r, sum))
		gs, isBulk := vBulkOf(g)
		vAssert("counter-stored-bulk", isBulk)
		if isBulk {
			vAssert("counter-stored", vIsDecimal(gs) && vDecimalOf(gs) == sum)
		}
		if withTTL {
			vAssert("counter-keeps-ttl", vTTLState(cs, "k") == 1)
		}
	}
	vReach("counter-overflow-pos", overflow && d > 0 && pre == 1)
	vReach("counter-overflow-neg", overflow && d < 0 && pre == 1)
	vReach("counter-ok", !overflow && pre == 1)
}

// refGetRange is getrangeCommand of Redis 7.0.
func refGetRange(n int, start, end int64) (lo, hi int64, empty bool) {
	strlen := int64(n)
	if start < 0 && end < 0 && start > end {
		return 0, 0, true
	}
	if start < 0 {
		start = strlen + start
	}
	if end < 0 {
		end = strlen + end
	}
	if start < 0 {
		start = 0
	}
	if end < 0 {
		end = 0
	}
	if end >= strlen {
		end = strlen - 1
	}
	if start > end || strlen == 0 {
		return 0, 0, true
	}
	return start, end, false
}

// VerifH_c02_getrange: GETRANGE / SUBSTR for all int64 start/end.
func VerifH_c02_getrange() {
	VerifSetup()
	cs := vNewClient()
	kind := vChoice("kind", 3) // absent, string, list
	s := vString("s", 3+2*vTier())
	switch kind {
	case 1:
		vCmd(cs, "SET", "k", s)
	case 2:
		vCmd(cs, "RPUSH", "k", "e")
	}
	ss, es := vDecimal("start"), vDecimal("end")
	start, end := vDecimalOf(ss), vDecimalOf(es)
	name := "GETRANGE"
	if vBool("substr") {
		name = "SUBSTR"
	}
	var r respValue
	panicked, msg := vCatch(func() { r = vCmd(cs, name, "k", ss, es) })
	vAssert("getrange-no-panic", !panicked)
	if panicked {
		vNote(msg)
		return
	}
	switch kind {
	case 0:
		vAssert("getrange-missing-empty", vIsBulk(r, ""))
	case 2:
		vAssert("getrange-wrongtype", vIsErr(r))
	case 1:
		lo, hi, empty := refGetRange(len(s), start, end)
		got, ok := vBulkOf(r)
		vAssert("getrange-bulk", ok)
		if !ok {
			return
		}
		if empty {
			vAssert("getrange-empty", len(got) == 0)
		} else {
			// lo, hi are symbolic in general: compare lengths, then bytes
			vAssert("getrange-len", int64(len(got)) == hi-lo+1)
			okBytes := true
			for i := 0; i < len(got); i++ {
				j := lo + int64(i)
				if j >= 0 && j < int64(len(s)) {
					okBytes = okBytes && got[i] == s[j]
				} else {
					okBytes = false
				}
			}
			vAssert("getrange-bytes", okBytes)
		}
		vReach("getrange-negative-end-clamped", end < -int64(len(s)) && start == 0 && len(s) == 3)
	}
}

// VerifH_c02_setrange: SETRANGE for all int64 offsets (bounded growth).
func VerifH_c02_setrange() {
	VerifSetup()
	cs := vNewClient()
	kind := vChoice("kind", 3) // absent, string, list
	s := vString("s", 3+2*vTier())
	switch kind {
	case 1:
		vCmd(cs, "SET", "k", s)
	case 2:
		vCmd(cs, "RPUSH", "k", "e")
	}
	if kind == 0 {
		s = ""
	}
	sub := vString("sub", 2+2*vTier())
	os := vDecimal("off")
	off := vDecimalOf(os)
	// growth bound of this harness: offsets above 6 only for the error paths
	vAssume(off <= 6 || off > 536870911)
	var r respValue
	panicked, msg := vCatch(func() { r = vCmd(cs, "SETRANGE", "k", os, sub) })
	vAssert("setrange-no-panic", !panicked)
	if panicked {
		vNote(msg)
		return
	}
	if off < 0 {
		vAssert("setrange-negative-error", vIsErr(r))
		return
	}
	if kind == 2 {
		vAssert("setrange-wrongtype", vIsErr(r))
		return
	}
	if len(sub) == 0 {
		// nothing to write: reply is the current length, key not created
		vAssert("setrange-empty-len", vIsInt(r, int64(len(s))))
		if kind == 0 {
			vAssert("setrange-empty-no-create", vIsInt(vCmd(cs, "EXISTS", "k"), 0))
		}
		return
	}
	if off > 512*1024*1024-int64(len(sub)) {
		vAssert("setrange-too-big-error", vIsErr(r))
		return
	}
	// reference result
	o := int(off)
	n := len(s)
	if o+len(sub) > n {
		n = o + len(sub)
	}
	want := make([]byte, n)
	copy(want, s)
	copy(want[o:], sub)
	vAssert("setrange-len", vIsInt(r, int64(n)))
	vAssert("setrange-value", vIsBulk(vCmd(cs, "GET", "k"), string(want)))
	vReach("setrange-pad", o > len(s))
}

// VerifH_c02_incrbyfloat: INCRBYFLOAT result text (reply and stored value),
// TTL kept, errors for non-numeric values, wrong types and non-finite results.
func VerifH_c02_incrbyfloat() {
	VerifSetup()
	cs := vNewClient()
	v := vFloatVectors[vChoice("vector", len(vFloatVectors))]
	hadTTL := false
	if v.old != "" {
		vCmd(cs, "SET", "k", v.old)
		if vBool("ttl") {
			vCmd(cs, "EXPIRE", "k", "1000")
			hadTTL = true
		}
	}
	r := vCmd(cs, "INCRBYFLOAT", "k", v.incr)
	vAssert("incrbyfloat-reply-text", vIsText(r, v.want))
	vAssert("incrbyfloat-stored-text", vIsBulk(vCmd(cs, "GET", "k"), v.want))
	want := int64(-1)
	if hadTTL {
		want = 1
	}
	vAssert("incrbyfloat-keeps-ttl", vTTLState(cs, "k") == want)
	vCmd(cs, "SET", "t", "abc")
	vAssert("incrbyfloat-non-numeric-error", vIsErr(vCmd(cs, "INCRBYFLOAT", "t", "1")))
	vAssert("incrbyfloat-non-numeric-inert", vIsBulk(vCmd(cs, "GET", "t"), "abc"))
	vCmd(cs, "RPUSH", "l", "1")
	vAssert("incrbyfloat-wrongtype", vIsErr(vCmd(cs, "INCRBYFLOAT", "l", "1")))
	vCmd(cs, "SET", "big", "1e308")
	vAssert("incrbyfloat-overflow-error", vIsErr(vCmd(cs, "INCRBYFLOAT", "big", "1e308")))
	vAssert("incrbyfloat-overflow-inert", vIsBulk(vCmd(cs, "GET", "big"), "1e308"))
	vAssert("incrbyfloat-inf-error", vIsErr(vCmd(cs, "INCRBYFLOAT", "nokey", "inf")))
	vAssert("incrbyfloat-inf-creates-nothing", vIsInt(vCmd(cs, "EXISTS", "nokey"), 0))
}

// VerifH_c02_set_expire: SET with EX / PX / EXAT / PXAT and an arbitrary
// 64-bit number: zero and negative numbers are refused (and change nothing),
// positive ones set the value with a deadline - in the past for an absolute
// time before now, which makes the key vanish at once.  KEEPTTL together with
// an expiry option is a syntax error.
func VerifH_c02_set_expire() {
	VerifSetup()
	vSetNow(vT0, 0)
	cs := vNewClient()
	existed := vBool("exists")
	if existed {
		vCmd(cs, "SET", "k", "old")
	}
	opt := []string{"EX", "PX", "EXAT", "PXAT"}[vChoice("opt", 4)]
	// every non-positive number symbolically; positive ones from a table around
	// "now" (a symbolic positive number is multiplied by 10^9 on its way to a
	// deadline, which no solver back end decides in reasonable time)
	var ns string
	var n int64
	if vBool("non-positive") {
		ns = vDecimal("n")
		n = vDecimalOf(ns)
		vAssume(n <= 0)
	} else {
		n = []int64{1, 100, 1699999999, 1700000001, 1699999999999, 1700000000001, 3999999999999}[vChoice("pos", 7)]
		ns = vItoa(int(n))
		// deadlines more than ~290 years away are not representable in the
		// emulator's clock arithmetic and are refused by design (see C07):
		// seconds are kept below 10^10, and absolute times below the year 2100
		vAssume(opt == "PX" || opt == "PXAT" || n < 10000000000)
		vAssume((opt != "EXAT" || n < 4102444800) && (opt != "PXAT" || n < 4102444800000))
	}
	args := []string{"SET", "k", "new", opt, ns}
	if vBool("get") {
		args = append(args, "GET")
	}
	r := vCmd(cs, args...)
	g := vCmd(cs, "GET", "k")
	if n <= 0 {
		vAssert("set-non-positive-expire-error", vIsErr(r))
		if existed {
			vAssert("set-bad-expire-inert", vIsBulk(g, "old") && vTTLState(cs, "k") == -1)
		} else {
			vAssert("set-bad-expire-creates-nothing", vIsNil(g))
		}
		return
	}
	// a range in which the deadline is representable
	vAssume(n < 4000000000000)
	vAssert("set-with-expire-accepted", !vIsErr(r))
	nowMs := int64(vT0) * 1000
	inPast := (opt == "EXAT" && n*1000 <= nowMs) || (opt == "PXAT" && n <= nowMs)
	if inPast {
		vAssert("set-with-past-deadline-vanishes", vIsNil(g))
	} else {
		vAssert("set-with-expire-value", vIsBulk(g, "new"))
		vAssert("set-with-expire-has-ttl", vTTLState(cs, "k") == 1)
	}
	vAssert("keepttl-with-expire-option-is-an-error", vIsErr(vCmd(cs, "SET", "k", "x", "KEEPTTL", opt, "100")))
}
