//go:build verif

package redisemu

// C02 — string and counter commands.

// VerifH_c02_smoke: SET then GET returns the same bytes (binary safe).
func VerifH_c02_smoke() {
	VerifSetup()
	cs := vNewClient()
	val := vString("val", 3)
	r := vCmd(cs, "SET", "k", val)
	vAssert("set-ok", vIsOK(r))
	g := vCmd(cs, "GET", "k")
	vAssert("get-eq", vIsBulk(g, val))
	vReach("nonempty", len(val) == 3)
}
