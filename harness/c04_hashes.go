//go:build verif

package redisemu

// C04 — hash commands behave as Redis 7 (t_hash.c).  Field names come from
// a small concrete pool (their sipHash is computed by the real code); which
// fields are present and all values / increments are symbolic.

var vFieldPool = []string{"f0", "f1", "f2"}

type vHashModel struct {
	present [3]bool
	val     [3]string
}

func (m *vHashModel) count() int {
	n := 0
	for _, p := range m.present {
		if p {
			n++
		}
	}
	return n
}

// vMkHash builds hash key k over the pool with symbolic membership/values.
func vMkHash(cs *clientState, k, name string) *vHashModel {
	m := &vHashModel{}
	for i, f := range vFieldPool {
		if vBool(name + ".has") {
			v := vString(name+".v", 1+vTier()) // may be empty: an empty value is a value
			vCmd(cs, "HSET", k, f, v)
			m.present[i] = true
			m.val[i] = v
		}
	}
	return m
}

// vHashIs asserts key k holds exactly the model mapping.
func vHashIs(cs *clientState, label, k string, m *vHashModel) {
	n := m.count()
	vAssert(label+"-hlen", vIsInt(vCmd(cs, "HLEN", k), int64(n)))
	ex := int64(1)
	if n == 0 {
		ex = 0
	}
	vAssert(label+"-exists", vIsInt(vCmd(cs, "EXISTS", k), ex))
	for i, f := range vFieldPool {
		g := vCmd(cs, "HGET", k, f)
		if m.present[i] {
			vAssert(label+"-hget", vIsBulk(g, m.val[i]))
		} else {
			vAssert(label+"-hget-absent", vIsNil(g))
		}
	}
	// HGETALL (RESP2: flat field/value array, order unspecified)
	a, ok := vArrayOf(vCmd(cs, "HGETALL", k))
	vAssert(label+"-hgetall-shape", ok && len(a) == 2*n)
	if ok && len(a) == 2*n {
		for i, f := range vFieldPool {
			if !m.present[i] {
				continue
			}
			found := false
			for j := 0; j+1 < len(a); j += 2 {
				if vIsBulk(a[j], f) {
					found = vOr(found, vIsBulk(a[j+1], m.val[i]))
				}
			}
			vAssert(label+"-hgetall-pair", found)
		}
	}
}

// VerifH_c04_write: HSET / HMSET / HSETNX / HDEL.
func VerifH_c04_write() {
	VerifSetup()
	cs := vNewClient()
	wrong := vBool("wrongtype")
	var m *vHashModel
	if wrong {
		vCmd(cs, "RPUSH", "h", "x")
		m = &vHashModel{}
	} else {
		m = vMkHash(cs, "h", "h")
	}
	i1, i2 := vChoice("field1", 3), vChoice("field2", 3)
	v1, v2 := vString("nv", 2), vStringN("nv", 1)
	switch vChoice("cmd", 4) {
	case 0: // HSET with two pairs: reply = number of NEW fields
		r := vCmd(cs, "HSET", "h", vFieldPool[i1], v1, vFieldPool[i2], v2)
		if wrong {
			vAssert("hset-wrongtype", vIsErr(r))
			vAssert("hset-wrongtype-inert", vTypeOf(cs, "h") == "list")
			return
		}
		added := 0
		if !m.present[i1] {
			added++
		}
		m.present[i1], m.val[i1] = true, v1
		if !m.present[i2] {
			added++
		}
		m.present[i2], m.val[i2] = true, v2
		vAssert("hset-added", vIsInt(r, int64(added)))
		vHashIs(cs, "hset", "h", m)
	case 1: // HMSET
		r := vCmd(cs, "HMSET", "h", vFieldPool[i1], v1, vFieldPool[i2], v2)
		if wrong {
			vAssert("hmset-wrongtype", vIsErr(r))
			return
		}
		vAssert("hmset-ok", vIsOK(r))
		m.present[i1], m.val[i1] = true, v1
		m.present[i2], m.val[i2] = true, v2
		vHashIs(cs, "hmset", "h", m)
	case 2: // HSETNX never overwrites
		r := vCmd(cs, "HSETNX", "h", vFieldPool[i1], v1)
		if wrong {
			vAssert("hsetnx-wrongtype", vIsErr(r))
			return
		}
		if m.present[i1] {
			vAssert("hsetnx-existing-0", vIsInt(r, 0))
		} else {
			vAssert("hsetnx-new-1", vIsInt(r, 1))
			m.present[i1], m.val[i1] = true, v1
		}
		vHashIs(cs, "hsetnx", "h", m)
	case 3: // HDEL two fields (may repeat)
		r := vCmd(cs, "HDEL", "h", vFieldPool[i1], vFieldPool[i2])
		if wrong {
			vAssert("hdel-wrongtype", vIsErr(r))
			return
		}
		removed := 0
		if m.present[i1] {
			removed++
			m.present[i1] = false
		}
		if m.present[i2] {
			removed++
			m.present[i2] = false
		}
		vAssert("hdel-removed", vIsInt(r, int64(removed)))
		vHashIs(cs, "hdel", "h", m)
		vReach("hdel-last-field-removes-key", removed > 0 && m.count() == 0)
	}
}

// VerifH_c04_read: HGET/HMGET/HKEYS/HVALS/HLEN/HEXISTS/HSTRLEN.
func VerifH_c04_read() {
	VerifSetup()
	cs := vNewClient()
	wrong := vBool("wrongtype")
	var m *vHashModel
	if wrong {
		vCmd(cs, "SET", "h", "x")
		m = &vHashModel{}
	} else {
		m = vMkHash(cs, "h", "h")
	}
	i1 := vChoice("field1", 3)
	f := vFieldPool[i1]
	switch vChoice("cmd", 5) {
	case 0:
		r := vCmd(cs, "HEXISTS", "h", f)
		if wrong {
			vAssert("hexists-wrongtype", vIsErr(r))
		} else if m.present[i1] {
			vAssert("hexists-1", vIsInt(r, 1))
		} else {
			vAssert("hexists-0", vIsInt(r, 0))
		}
	case 1:
		if !wrong && m.present[i1] {
			lv := vString("lv", 3+vTier())
			vCmd(cs, "HSET", "h", f, lv)
			m.val[i1] = lv
		}
		r := vCmd(cs, "HSTRLEN", "h", f)
		if wrong {
			vAssert("hstrlen-wrongtype", vIsErr(r))
		} else if m.present[i1] {
			vAssert("hstrlen-len", vIsInt(r, int64(len(m.val[i1]))))
		} else {
			vAssert("hstrlen-0", vIsInt(r, 0))
		}
	case 2:
		r := vCmd(cs, "HMGET", "h", f, "nofield", vFieldPool[0])
		if wrong {
			vAssert("hmget-wrongtype", vIsErr(r))
			return
		}
		a, ok := vArrayOf(r)
		vAssert("hmget-shape", ok && len(a) == 3)
		if ok && len(a) == 3 {
			if m.present[i1] {
				vAssert("hmget-0", vIsBulk(a[0], m.val[i1]))
			} else {
				vAssert("hmget-0-nil", vIsNil(a[0]))
			}
			vAssert("hmget-missing-nil", vIsNil(a[1]))
			if m.present[0] {
				vAssert("hmget-2", vIsBulk(a[2], m.val[0]))
			} else {
				vAssert("hmget-2-nil", vIsNil(a[2]))
			}
		}
	case 3:
		r := vCmd(cs, "HKEYS", "h")
		if wrong {
			vAssert("hkeys-wrongtype", vIsErr(r))
			return
		}
		a, ok := vArrayOf(r)
		vAssert("hkeys-shape", ok && len(a) == m.count())
		if ok {
			for i, fn := range vFieldPool {
				found := false
				for _, e := range a {
					found = found || vIsBulk(e, fn)
				}
				vAssert("hkeys-membership", found == m.present[i])
			}
		}
	case 4:
		r := vCmd(cs, "HVALS", "h")
		if wrong {
			vAssert("hvals-wrongtype", vIsErr(r))
			return
		}
		a, ok := vArrayOf(r)
		vAssert("hvals-shape", ok && len(a) == m.count())
		if ok && len(a) == m.count() {
			// every model value occurs among the returned values
			for i := range vFieldPool {
				if !m.present[i] {
					continue
				}
				found := false
				for _, e := range a {
					found = vOr(found, vIsBulk(e, m.val[i]))
				}
				vAssert("hvals-value-present", found)
			}
		}
	}
	if !wrong {
		vHashIs(cs, "read-only", "h", m)
	}
}

// VerifH_c04_hincrby: HINCRBY for all int64 old values and increments.
func VerifH_c04_hincrby() {
	VerifSetup()
	cs := vNewClient()
	pre := vChoice("pre", 5) // 0 key absent, 1 field absent (hash exists), 2 decimal, 3 short text, 4 wrong type
	var p int64
	var old string
	isInt := true
	switch pre {
	case 1:
		vCmd(cs, "HSET", "h", "other", "x")
	case 2:
		old = vDecimal("p")
		p = vDecimalOf(old)
		vCmd(cs, "HSET", "h", "f", old)
	case 3:
		old = vString("s", 2)
		p, isInt = refCanonInt(old)
		vCmd(cs, "HSET", "h", "f", old)
	case 4:
		vCmd(cs, "SET", "h", "x")
	}
	ds := vDecimal("d")
	d := vDecimalOf(ds)
	r := vCmd(cs, "HINCRBY", "h", "f", ds)
	if pre == 4 {
		vAssert("hincrby-wrongtype", vIsErr(r))
		vAssert("hincrby-wrongtype-inert", vTypeOf(cs, "h") == "string")
		return
	}
	g := vCmd(cs, "HGET", "h", "f")
	if !isInt {
		vAssert("hincrby-nonint-error", vIsErr(r))
		vAssert("hincrby-nonint-unchanged", vIsBulk(g, old))
		return
	}
	sum := p + d
	overflow := ((p ^ sum) & (d ^ sum)) < 0
	if overflow {
		vAssert("hincrby-overflow-error", vIsErr(r))
		vAssert("hincrby-overflow-unchanged", vIsBulk(g, old))
	} else {
		vAssert("hincrby-reply", vIsInt(r, sum))
		gs, isBulk := vBulkOf(g)
		vAssert("hincrby-stored-bulk", isBulk)
		if isBulk {
			vAssert("hincrby-stored", vIsDecimal(gs) && vDecimalOf(gs) == sum)
		}
	}
	want := int64(1)
	if pre == 1 {
		want = 2
	}
	vAssert("hincrby-hlen", vIsInt(vCmd(cs, "HLEN", "h"), want))
	vReach("hincrby-neg-delta-on-pos", pre == 2 && p > 0 && d < 0 && !overflow)
	vReach("hincrby-overflow", pre == 2 && overflow)
}

// VerifH_c04_hrandfield: result shape for counts in -3..3 (math/rand is a
// round-robin sequence from an arbitrary start).
func VerifH_c04_hrandfield() {
	VerifSetup()
	cs := vNewClient()
	m := vMkHash(cs, "h", "h")
	n := m.count()
	hasCount := vBool("hascount")
	withValues := false
	args := []string{"HRANDFIELD", "h"}
	var count int64
	if hasCount {
		s := vDecimal("count")
		count = vDecimalOf(s)
		vAssume(count >= -3 && count <= 3)
		args = append(args, s)
		if vBool("withvalues") {
			withValues = true
			args = append(args, "WITHVALUES")
		}
	}
	r := vCmd(cs, args...)
	isField := func(v respValue) bool {
		ok := false
		for i, f := range vFieldPool {
			if m.present[i] && vIsBulk(v, f) {
				ok = true
			}
		}
		return ok
	}
	if !hasCount {
		if n == 0 {
			vAssert("hrandfield-missing-nil", vIsNil(r))
		} else {
			vAssert("hrandfield-one-existing", isField(r))
		}
		return
	}
	a, ok := vArrayOf(r)
	vAssert("hrandfield-array", ok)
	if !ok {
		return
	}
	step := 1
	if withValues {
		step = 2 // RESP2: flat field, value, field, value ...
	}
	want := 0
	if n > 0 {
		if count >= 0 {
			want = int(count)
			if want > n {
				want = n
			}
		} else {
			want = int(-count)
		}
	}
	vAssert("hrandfield-count", len(a) == want*step)
	if len(a) != want*step {
		return
	}
	for j := 0; j < len(a); j += step {
		vAssert("hrandfield-existing-field", isField(a[j]))
		if withValues {
			okv := false
			for i, f := range vFieldPool {
				if m.present[i] && vIsBulk(a[j], f) {
					okv = vIsBulk(a[j+1], m.val[i])
				}
			}
			vAssert("hrandfield-value-matches", okv)
		}
	}
	if count > 0 {
		distinct := true
		for j := 0; j < len(a); j += step {
			for l := j + step; l < len(a); l += step {
				for _, f := range vFieldPool {
					if vIsBulk(a[j], f) && vIsBulk(a[l], f) {
						distinct = false
					}
				}
			}
		}
		vAssert("hrandfield-distinct", distinct)
	}
	vReach("hrandfield-negative", count < 0 && n > 0)
}

// VerifH_c04_hrandfield_extreme: counts no list of fields can satisfy must
// be refused or clamped, never crash.  Negative counts between -2^62 and
// -2^32 legitimately ask for that many (repeated) fields and are outside
// the claim.
func VerifH_c04_hrandfield_extreme() {
	VerifSetup()
	cs := vNewClient()
	vCmd(cs, "HSET", "h", "f0", "v")
	s := vDecimal("count")
	count := vDecimalOf(s)
	vAssume(count > 4294967296 || count == -9223372036854775808)
	var r respValue
	panicked, msg := vCatch(func() { r = vCmd(cs, "HRANDFIELD", "h", s) })
	vAssert("hrandfield-extreme-no-panic", !panicked)
	if panicked {
		vNote(msg)
		return
	}
	if count < 0 {
		vAssert("hrandfield-out-of-range-error", vIsErr(r))
	} else {
		a, ok := vArrayOf(r)
		vAssert("hrandfield-clamped", ok && len(a) == 1)
	}
}

// vFloatVectors: (stored text, increment) -> text Redis stores and replies
// (fixed notation, no exponent, trailing zeros trimmed).  Floating point is
// out of the solver's reach: these are concrete vectors run through the
// engine and natively, chosen at the magnitudes where formats differ.
var vFloatVectors = []struct{ old, incr, want string }{
	{"", "0.00001", "0.00001"}, {"", "1e21", "1000000000000000000000"}, {"10.5", "0.1", "10.6"}, {"5.0e3", "200", "5200"},
	{"", "-2.5e-7", "-0.00000025"}, {"3", "1.5", "4.5"}, {"1", "-1", "0"}, {"0.1", "0.2", "0.30000000000000004"},
	{"123456789", "0.125", "123456789.125"}, {"1e6", "1", "1000001"},
}

// VerifH_c04_hincrbyfloat: HINCRBYFLOAT result text (reply, HGET, HSTRLEN),
// errors for non-numeric fields and non-finite results, field and key creation.
func VerifH_c04_hincrbyfloat() {
	VerifSetup()
	cs := vNewClient()
	v := vFloatVectors[vChoice("vector", len(vFloatVectors))]
	if v.old != "" {
		vCmd(cs, "HSET", "h", "f", v.old)
	} else if vBool("other-field") {
		vCmd(cs, "HSET", "h", "g", "1")
	}
	r := vCmd(cs, "HINCRBYFLOAT", "h", "f", v.incr)
	vAssert("hincrbyfloat-reply-text", vIsText(r, v.want))
	vAssert("hincrbyfloat-stored-text", vIsBulk(vCmd(cs, "HGET", "h", "f"), v.want))
	vAssert("hincrbyfloat-hstrlen", vIsInt(vCmd(cs, "HSTRLEN", "h", "f"), int64(len(v.want))))
	// a non-numeric field is refused and left alone
	vCmd(cs, "HSET", "h", "t", "abc")
	vAssert("hincrbyfloat-non-numeric-error", vIsErr(vCmd(cs, "HINCRBYFLOAT", "h", "t", "1")))
	vAssert("hincrbyfloat-non-numeric-inert", vIsBulk(vCmd(cs, "HGET", "h", "t"), "abc"))
	// a result that is not finite is refused and changes nothing
	vCmd(cs, "HSET", "h", "big", "1e308")
	vAssert("hincrbyfloat-overflow-error", vIsErr(vCmd(cs, "HINCRBYFLOAT", "h", "big", "1e308")))
	vAssert("hincrbyfloat-overflow-inert", vIsBulk(vCmd(cs, "HGET", "h", "big"), "1e308"))
	vAssert("hincrbyfloat-inf-error", vIsErr(vCmd(cs, "HINCRBYFLOAT", "nokey", "f", "inf")))
	vAssert("hincrbyfloat-inf-creates-nothing", vIsInt(vCmd(cs, "EXISTS", "nokey"), 0))
}
