//go:build verif

package redisemu

// C01 / C13 (codec part) — RESP framing: the real deserializer, serializer
// and connection read loop on symbolic bytes.

import (
	"io"
	"net"
	"time"
)

// refEncodeCommand is the reference encoder of a command (array of bulk
// strings).
func refEncodeCommand(args []string) []byte {
	out := []byte("*" + vItoa(len(args)) + "\r\n")
	for _, a := range args {
		out = append(out, []byte("$"+vItoa(len(a))+"\r\n")...)
		out = append(out, []byte(a)...)
		out = append(out, '\r', '\n')
	}
	return out
}

func vSymArgs(name string, maxArgs, maxLen int) []string {
	n := 1 + vChoice(name+".n", maxArgs)
	args := make([]string, n)
	for i := range args {
		args[i] = vString(name+".arg", maxLen)
	}
	return args
}

func vIsCommand(v respValue, args []string) bool {
	a, ok := v.data.(respArray)
	if !ok || len(a) != len(args) {
		return false
	}
	same := true
	for i := range args {
		same = vAnd(same, vIsBulk(a[i], args[i]))
	}
	return same
}

// VerifH_c01_parse_roundtrip: parse(enc(args) ++ X) = (args, len(enc(args)))
// for arbitrary argument bytes and an arbitrary tail; every strict prefix
// of enc(args) is "need more".
func VerifH_c01_parse_roundtrip() {
	VerifSetup()
	args := vSymArgs("c", 2+vTier(), 2)
	enc := refEncodeCommand(args)
	tail := vBytes("tail", 2)
	buf := append(append([]byte{}, enc...), tail...)
	rd := newRespDeserializer(vLane, buf)
	v, n, valid := rd.deserializeNext()
	vAssert("parse-valid", valid)
	if valid {
		vAssert("parse-consumed-exact", n == len(enc))
		vAssert("parse-args-identical", vIsCommand(v, args))
	}
	// truncation: any strict prefix is incomplete
	cut := vInt("cut")
	vAssume(cut >= 0 && cut < len(enc))
	rd2 := newRespDeserializer(vLane, enc[:cut])
	_, n2, valid2 := rd2.deserializeNext()
	vAssert("prefix-needs-more", !valid2 && n2 == 0)
	vReach("arg-with-crlf", len(args[0]) == 2 && args[0][0] == '\r' && args[0][1] == '\n')
}

// vRespEq compares two reply trees structurally (bulk/simple/error strings,
// integers, nil, arrays).
func vRespEq(a, b respValue) bool {
	switch x := a.data.(type) {
	case respBulkString:
		y, ok := b.data.(respBulkString)
		return ok && vStrEq(string(x), string(y))
	case respSimpleString:
		y, ok := b.data.(respSimpleString)
		return ok && vStrEq(string(x), string(y))
	case respErrorString:
		y, ok := b.data.(respErrorString)
		return ok && vStrEq(string(x), string(y))
	case respInt:
		y, ok := b.data.(respInt)
		return ok && x == y
	case nil:
		return b.data == nil
	case respArray:
		y, ok := b.data.(respArray)
		if !ok || len(x) != len(y) {
			return false
		}
		same := true
		for i := range x {
			same = vAnd(same, vRespEq(x[i], y[i]))
		}
		return same
	}
	return false
}

func vSymReply(name string, depth int) respValue {
	n := 4
	if depth > 0 {
		n = 5
	}
	switch vChoice(name+".kind", n) {
	case 0:
		return respValue{data: respBulkString(vString(name+".s", 2))}
	case 1:
		i := vInt64(name + ".i")
		if vTier() == 0 {
			vAssume(i > -1000 && i < 1000)
		} else {
			vAssume(i > -100000000 && i < 100000000)
		}
		return respValue{data: respInt(i)}
	case 2:
		return respValue{data: nil}
	case 3:
		return respValue{data: respSimpleString("OK")}
	default:
		k := vChoice(name+".len", 3)
		a := make(respArray, k)
		for i := range a {
			a[i] = vSymReply(name+".e", depth-1)
		}
		return respValue{data: a}
	}
}

// VerifH_c01_serialize_roundtrip: deserialize(serialize(v)) = v and consumes
// every byte, for bounded reply trees with arbitrary bulk bytes / integers.
func VerifH_c01_serialize_roundtrip() {
	VerifSetup()
	v := vSymReply("r", 1+vTier())
	out := v.serialize()
	rd := newRespDeserializer(vLane, out)
	back, n, valid := rd.deserializeNext()
	vAssert("serialize-parses", valid)
	if valid {
		vAssert("serialize-one-value", n == len(out))
		vAssert("serialize-roundtrip", vRespEq(v, back))
	}
}

// vOneFrame: the bytes are exactly one well-formed RESP value.
func vOneFrame(label string, out []byte) {
	rd := newRespDeserializer(vLane, out)
	var n int
	var valid bool
	panicked, _ := vCatch(func() { _, n, valid = rd.deserializeNext() })
	vAssert(label+"-reply-parses", !panicked && valid)
	if !panicked && valid {
		vAssert(label+"-reply-is-one-frame", n == len(out))
	}
}

// VerifH_c01_error_framing: error replies that quote client input (unknown
// command name and arguments, wrong arity, unknown subcommand) stay one
// well-formed RESP frame for arbitrary input bytes.
func VerifH_c01_error_framing() {
	VerifSetup()
	cs := vNewClient()
	if vBool("resp3") {
		cs.respVersion = 3
	}
	var r respValue
	switch vChoice("case", 3) {
	case 0: // unknown command with arbitrary name and one argument
		name := vString("name", 2)
		arg := vString("arg", 2)
		// the name must not be a real command
		_, known := cs.disp.active[asciiLower(name)]
		vAssume(!known)
		r = vCmd(cs, name, arg)
		vAssert("unknown-command-error", vIsErr(r))
	case 1: // wrong arity: GET with two arguments, arbitrary bytes
		r = vCmd(cs, "GET", vString("a", 2), vString("b", 2))
		vAssert("arity-error", vIsErr(r))
	case 2: // unknown subcommand
		sub := vString("sub", 2)
		vAssume(asciiLower(sub) != "id") // CLIENT ID is the only real subcommand this short
		r = vCmd(cs, "CLIENT", sub)
		vAssert("subcommand-error", vIsErr(r))
	}
	vOneFrame("quoted-error", r.serialize())
}

func asciiLower(s string) string {
	b := []byte(s)
	for i, c := range b {
		if c >= 'A' && c <= 'Z' {
			b[i] = c + 32
		}
	}
	return string(b)
}

// ---------------------------------------------------------------------
// the real connection read loop on a segmented stream

type vConn struct {
	segs    [][]byte
	written []byte
	closed  bool
}

type vAddr struct{}

func (vAddr) Network() string { return "tcp" }
func (vAddr) String() string  { return "1.2.3.4:5" }

func (c *vConn) Read(b []byte) (int, error) {
	if len(c.segs) == 0 {
		return 0, io.EOF
	}
	s := c.segs[0]
	c.segs = c.segs[1:]
	n := copy(b, s)
	return n, nil
}
func (c *vConn) Write(b []byte) (int, error) {
	c.written = append(c.written, b...)
	return len(b), nil
}
func (c *vConn) Close() error                       { c.closed = true; return nil }
func (c *vConn) LocalAddr() net.Addr                { return vAddr{} }
func (c *vConn) RemoteAddr() net.Addr               { return vAddr{} }
func (c *vConn) SetDeadline(t time.Time) error      { return nil }
func (c *vConn) SetReadDeadline(t time.Time) error  { return nil }
func (c *vConn) SetWriteDeadline(t time.Time) error { return nil }

// vRunConn plays clientCxn.run()'s loop without goroutines: it takes the
// events the real handlers queue and calls the real handlers for them.  The
// dispatch step runs inline (one command in flight, like the real loop).
// Returns the commands in the order they were dispatched.
func vRunConn(cc *clientCxn, conn *vConn, maxSteps int) (cmds []respValue, replies [][]byte) {
	cc.queueStateChange(csWaitForCommand, nil)
	for step := 0; step < maxSteps; step++ {
		if len(cc.csceCh) == 0 {
			break
		}
		ev := <-cc.csceCh
		switch ev.newState {
		case csWaitForCommand:
			if len(conn.segs) == 0 && len(cc.inbound) == 0 {
				return
			}
			cc.onWaitForCommand()
		case csDispatchCommand:
			cmd := ev.eventData.(respValue)
			cmds = append(cmds, cmd)
			before := len(conn.written)
			out := cc.cs.dispatch(cmd)
			conn.Write(out.serialize())
			replies = append(replies, conn.written[before:])
			cc.queueStateChange(csWaitForCommand, nil)
		case csTerminate:
			return
		}
	}
	return
}

// VerifH_c01_readloop: two pipelined commands with arbitrary argument bytes,
// the byte stream cut into up to three TCP segments at arbitrary offsets:
// the real inbound-buffer code dispatches exactly the two commands, in
// order, whatever the cutting, and writes one frame per command.
func VerifH_c01_readloop() {
	VerifSetup()
	disp := vNewServer()
	c1 := []string{"ECHO", vString("m1", 2)}
	c2 := []string{"ECHO", vString("m2", 2)}
	stream := append(refEncodeCommand(c1), refEncodeCommand(c2)...)
	n := len(stream)
	k1 := vInt("cut1")
	k2 := vInt("cut2")
	vAssume(k1 >= 0 && k1 <= k2 && k2 <= n)
	conn := &vConn{}
	for _, seg := range [][]byte{stream[:k1], stream[k1:k2], stream[k2:]} {
		if len(seg) > 0 {
			conn.segs = append(conn.segs, seg)
		}
	}
	cc := &clientCxn{cxn: conn, started: time.Now(), csceCh: make(chan *clientStateEvent, 3)}
	cc.cs = newClientState(vLane, cc, disp)
	cmds, replies := vRunConn(cc, conn, 40)
	vAssert("readloop-two-commands", len(cmds) == 2)
	if len(cmds) == 2 {
		vAssert("readloop-first", vIsCommand(cmds[0], c1))
		vAssert("readloop-second", vIsCommand(cmds[1], c2))
		vOneFrame("readloop-reply1", replies[0])
		vOneFrame("readloop-reply2", replies[1])
		want := append(refEncodeBulk(c1[1]), refEncodeBulk(c2[1])...)
		vAssert("readloop-reply-bytes-independent-of-cutting", vBytesEq(conn.written, want))
	}
	vAssert("readloop-buffer-drained", len(cc.inbound) == 0)
	vReach("cut-inside-first-length-line", k1 == 2)
	vReach("both-commands-in-one-segment", k1 == 0 && k2 == n)
}

// VerifH_c01_readloop_big: an argument larger than the 8 KiB read buffer.
// The stream length is chosen around multiples of the buffer size and cut
// at table positions, so that a Read filling the buffer exactly occurs.
func VerifH_c01_readloop_big() {
	VerifSetup()
	disp := vNewServer()
	total := []int{8191, 8192, 8193, 16384, 8492}[vChoice("total", 5)]
	// "*2\r\n$4\r\nECHO\r\n$<n>\r\n<n bytes>\r\n": 14 + 1+len(itoa(n))+2 + n + 2
	n := total - 14 - 1 - 4 - 2 - 2 // n has 4 digits for these totals; 5 for 16384
	if total == 16384 {
		n--
	}
	payload := make([]byte, n)
	for i := range payload {
		payload[i] = 'a' + byte(i%7)
	}
	payload[0] = vByte("first")
	payload[n-1] = vByte("last")
	c1 := []string{"ECHO", string(payload)}
	stream := refEncodeCommand(c1)
	vAssume(len(stream) == total)
	cut := []int{0, 300, 8192}[vChoice("cut", 3)]
	if cut > len(stream) {
		cut = 0
	}
	conn := &vConn{}
	if cut > 0 {
		conn.segs = append(conn.segs, stream[:cut])
	}
	// the kernel hands out at most one buffer-full per Read
	for rest := stream[cut:]; len(rest) > 0; {
		k := len(rest)
		if k > 8192 {
			k = 8192
		}
		conn.segs = append(conn.segs, rest[:k])
		rest = rest[k:]
	}
	cc := &clientCxn{cxn: conn, started: time.Now(), csceCh: make(chan *clientStateEvent, 3)}
	cc.cs = newClientState(vLane, cc, disp)
	cmds, _ := vRunConn(cc, conn, 40)
	vAssert("big-argument-dispatched-once", len(cmds) == 1)
	if len(cmds) == 1 {
		vAssert("big-argument-identical", vIsCommand(cmds[0], c1))
		vAssert("big-argument-reply-bytes", vBytesEq(conn.written, refEncodeBulk(c1[1])))
	}
}

func refEncodeBulk(s string) []byte {
	out := []byte("$" + vItoa(len(s)) + "\r\n")
	out = append(out, []byte(s)...)
	return append(out, '\r', '\n')
}

// ---------------------------------------------------------------------
// C13: the parser on arbitrary bytes

// VerifH_c13_parser_bytes: deserializeNext on every byte string up to the
// bound never panics, and what it consumes lies inside the buffer.
func VerifH_c13_parser_bytes() {
	VerifSetup()
	bound := 5
	if vTier() > 0 {
		bound = 7
	}
	buf := vBytes("in", bound)
	rd := newRespDeserializer(vLane, buf)
	var n int
	var valid bool
	panicked, msg := vCatch(func() { _, n, valid = rd.deserializeNext() })
	vAssert("parser-no-panic", !panicked)
	if panicked {
		vNote(msg)
		return
	}
	if valid {
		vAssert("parser-consumed-in-range", n > 0 && n <= len(buf))
	} else {
		vAssert("parser-invalid-consumes-nothing", n == 0)
	}
	vReach("parser-accepts-something", valid)
}

// VerifH_c13_parser_lengths: declared lengths/counts are client integers.
// The routines that receive them (after the callers' sign checks) are run
// with an arbitrary non-negative int: they must neither panic nor allocate
// by the declared size when the data are not there.
func VerifH_c13_parser_lengths() {
	VerifSetup()
	count := vInt("count")
	vAssume(count >= 0)
	rest := vBytes("rest", 3)
	rd := newRespDeserializer(vLane, rest)
	which := vChoice("which", 6)
	panicked, msg := vCatch(func() {
		switch which {
		case 0:
			rd.peekBulkLine(count)
		case 1:
			rd.getNextArray(count)
		case 2:
			rd.getNextMap(count)
		case 3:
			rd.getNextSet(count)
		case 4:
			rd.getNextPush(count)
		case 5:
			rd.getNextAttributeMap(count)
		}
	})
	vAssert("parser-lengths-no-panic", !panicked)
	if panicked {
		vNote(msg)
	}
}

// VerifH_c13_parser_headers: every length-taking header of the protocol
// with an arbitrary 64-bit number in it, through the public entry point
// (the callers' own checks on the number are part of what is verified):
// bulk strings, blob errors, verbatim strings, all aggregates, and the
// chunk headers of streamed strings.
func VerifH_c13_parser_headers() {
	VerifSetup()
	prefixes := []string{"$", "*", "%", "~", ">", "|", "!", "=", "$?\r\n;", "!?\r\n;", "=?\r\n;", "$?\r\n;1\r\nx\r\n;", "*1\r\n$", "*2\r\n$1\r\na\r\n$", ":"}
	p := prefixes[vChoice("prefix", len(prefixes))]
	n := vDecimal("n")
	// what follows the header: up to 5 (thorough 7) arbitrary bytes (enough for a payload
	// of 3 bytes with its CR LF, e.g. a verbatim string "=3\r\nabc\r\n")
	restMax := 5
	if vTier() > 0 {
		restMax = 7
	}
	rest := vBytes("rest", restMax)
	content := append([]byte(p+n+"\r\n"), rest...)
	rd := newRespDeserializer(vLane, content)
	var length int
	var valid bool
	panicked, msg := vCatch(func() { _, length, valid = rd.deserializeNext() })
	vAssert("parser-headers-no-panic", !panicked)
	if panicked {
		vNote(msg)
		return
	}
	vAssert("parser-headers-consumed-in-range", !valid || (length > 0 && length <= len(content)))
}

// VerifH_c13_queued_exec: every session / introspection command queued in
// a transaction and then executed by EXEC gets its reply: EXEC returns (no
// self-deadlock on the database ownership EXEC holds, no panic), with one
// result per queued command, and a second connection is served afterwards.
func VerifH_c13_queued_exec() {
	VerifSetup()
	disp := vNewServer()
	cs := vNewClientOn(disp)
	other := vNewClientOn(disp)
	i := vChoice("cmd", len(vSessionCommands))
	c := vSessionCommands[i]
	vAssume(c[0] != "MULTI" && c[0] != "EXEC" && c[0] != "DISCARD" && c[0] != "WATCH" && c[0][0] != '@')
	vCmd(cs, "MULTI")
	q := vCmd(cs, c...)
	var r respValue
	panicked, msg := vCatch(func() { r = vCmd(cs, "EXEC") })
	vAssert("exec-of-queued-command-no-panic", !panicked)
	if panicked {
		vNote(msg)
		return
	}
	if vIsErr(q) {
		vAssert("exec-after-rejected-command-aborts", vIsErr(r))
	} else {
		a, ok := vArrayOf(r)
		vAssert("exec-one-result-per-queued-command", ok && len(a) == 1)
	}
	vAssert("other-connection-served-afterwards", vIsOK(vCmd(other, "SET", "x", "1")))
}

// VerifH_c01_line_replies: whatever text ends up in a simple-string or error
// reply (error messages quote client bytes), the serialised reply is one
// line: its type byte, a body without any CR or LF byte, and the final CR LF.
// This is the serializer's half of "no reply ever contains bytes that break
// RESP framing", for every text of up to 5 (thorough 8) arbitrary bytes.
func VerifH_c01_line_replies() {
	n := 5
	if vTier() > 0 {
		n = 8
	}
	s := vString("s", n)
	var v respValue
	if vBool("error") {
		v = respValue{data: respErrorString("ERR " + s)}
	} else {
		v = respValue{data: respSimpleString(s)}
	}
	out := v.serialize()
	vAssert("line-reply-ends-with-crlf", len(out) >= 3 && out[len(out)-2] == '\r' && out[len(out)-1] == '\n')
	if len(out) < 3 {
		return
	}
	clean := true
	for _, c := range out[1 : len(out)-2] {
		clean = vAnd(clean, c != '\r' && c != '\n')
	}
	vAssert("line-reply-body-has-no-line-break", clean)
	vOneFrame("line-reply", out)
}
