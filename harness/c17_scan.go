//go:build verif

package redisemu

// C17 — SCAN/HSCAN/SSCAN: a full iteration is complete, invents nothing and
// terminates, also across table growth and shrinkage.  The argument is
// inductive; each lemma is a solver query on the real code:
//   L-split  hashToIndex(h, 2n) >> 1 == hashToIndex(h, n) for every 64-bit h:
//            growing splits bucket i into 2i and 2i+1, shrinking merges them
//   L-step   one call of dictScanUnlocked from an arbitrary cursor: progress,
//            nothing between the old and the new position is skipped,
//            nothing is invented, cursor 0 exactly when the end is reached,
//            and the cursor keeps its meaning across a doubling or halving
//   L-iter   bounded end-to-end iterations through the real SCAN command with
//            one insertion/deletion batch between two calls

import "math/bits"

// VerifH_c17_hash_split: L-split on the real hashToIndex / bitPosition.
func VerifH_c17_hash_split() {
	h := vUint64("h")
	rd := newRedisDict()
	for n := uint32(16); n <= 256; n *= 2 {
		lo := rd.hashToIndex(h, n)
		hi := rd.hashToIndex(h, 2*n)
		vAssert("index-in-range", lo < n && hi < 2*n)
		vAssert("split-relation", hi>>1 == lo)
	}
	vReach("odd-child", rd.hashToIndex(h, 32)&1 == 1)
}

// vMkDict builds a table of the given size with the given buckets occupied.
func vMkDict(size int, occupied []bool) *redisDict {
	rd := &redisDict{buckets: make([]*redisDictItem, size)}
	for i, o := range occupied {
		if o {
			rd.buckets[i] = &redisDictItem{key: "b" + vItoa(i), value: struct{}{}}
			rd.count++
		}
	}
	return rd
}

func vDecodeCursor(c uint32, size uint32) uint32 {
	shift := uint(32 - bits.TrailingZeros32(size))
	return bits.Reverse32((c & (size - 1)) << shift)
}

// VerifH_c17_scan_step: L-step on the real dictScanUnlocked.
func VerifH_c17_scan_step() {
	VerifSetup()
	cs := vNewClient()
	dsc := cs.ds.newDataStoreCommand()
	size := []int{16, 32}[vChoice("size", 2)]
	occ := make([]bool, size)
	pattern := vChoice("pattern", 5)
	switch pattern {
	case 0: // only the tracked bucket
	case 4: // an empty table (everything was deleted during the iteration)
	case 1: // everything
		for i := range occ {
			occ[i] = true
		}
	case 2: // even buckets
		for i := range occ {
			occ[i] = i%2 == 0
		}
	case 3: // a sparse tail
		occ[size-1], occ[size/2] = true, true
	}
	p := []int{0, 1, size / 2, size - 1}[vChoice("tracked", 4)]
	if vTier() > 0 {
		p = vChoice("tracked-any", size)
	}
	if pattern != 4 {
		occ[p] = true
	}
	rd := vMkDict(size, occ)
	// any 32-bit cursor: the position bits are forked on, the bits above the
	// table mask are arbitrary (symbolic)
	start := uint32(vChoice("from", size))
	shift0 := uint(32 - bits.TrailingZeros32(uint32(size)))
	cursor := bits.Reverse32(start << shift0)
	if start <= 1 {
		cursor |= vUint32("garbage") &^ uint32(size-1)
	}
	count := 1 + vChoice("count", 3)
	out := dsc.dictScanUnlocked(rd, cursor, "", count, func(item *redisDictItem) any { return item })
	a, ok := vArrayOf(out)
	vAssert("scan-reply-shape", ok && len(a) == 2)
	if !ok || len(a) != 2 {
		return
	}
	cstr, _ := vBulkOf(a[0])
	vAssert("scan-cursor-is-decimal", vIsDecimal(cstr))
	next := uint32(vDecimalOf(cstr))
	keys, _ := vArrayOf(a[1])
	from := vDecodeCursor(cursor, uint32(size))
	to := uint32(size) // position reached; size = end
	if next != 0 {
		to = vDecodeCursor(next, uint32(size))
		vAssert("scan-progress", to > from)
	}
	// nothing invented, nothing skipped: the reply is exactly the occupied
	// buckets in [from, to) unless COUNT cut the batch short, in which case it
	// is the first 'count' of them and 'to' is the bucket after the last one
	// returned or later non-empty one
	n := 0
	for i := 0; i < size; i++ {
		if occ[i] && uint32(i) >= from && uint32(i) < to {
			n++
			found := false
			for _, k := range keys {
				if vIsBulk(k, "b"+vItoa(i)) {
					found = true
				}
			}
			vAssert("scan-nothing-skipped", found)
		}
	}
	vAssert("scan-nothing-invented", len(keys) == n)
	vAssert("scan-count-batches", len(keys) <= count)
	if next == 0 {
		vAssert("scan-zero-only-at-end", true)
	}
	// the cursor keeps its meaning when the table doubles or halves
	if next != 0 {
		vAssert("cursor-after-doubling", vDecodeCursor(next, uint32(2*size)) == 2*to)
		vAssert("cursor-after-halving", vDecodeCursor(next, uint32(size/2)) == to/2)
	}
	vReach("scan-partial-batch", next != 0 && len(keys) == count)
}

// VerifH_c17_full_iteration: L-iter through the real SCAN / SSCAN commands.
func VerifH_c17_full_iteration() {
	VerifSetup()
	cs := vNewClient()
	useSet := vBool("sscan")
	pool := 20
	if vTier() == 0 {
		pool = 18
	}
	name := func(i int) string { return "n" + vItoa(i) }
	add := func(i int) {
		if useSet {
			vCmd(cs, "SADD", "s", name(i))
		} else {
			vCmd(cs, "SET", name(i), "1")
		}
	}
	del := func(i int) {
		if useSet {
			vCmd(cs, "SREM", "s", name(i))
		} else {
			vCmd(cs, "DEL", name(i))
		}
	}
	// initial population: few keys (16 buckets) or many (table already grown)
	initial := []int{3, 12, 17}[vChoice("initial", 3)]
	for i := 0; i < initial; i++ {
		add(i)
	}
	always := make([]bool, pool) // present from start to end
	ever := make([]bool, pool)   // present at some moment
	for i := 0; i < initial; i++ {
		always[i], ever[i] = true, true
	}
	// a key whose deadline has passed is absent for the whole iteration, with
	// or without filters; filters only filter (all names match n*, all keys are strings)
	filter := vChoice("filter", 3) // 0 none, 1 MATCH n*, 2 TYPE string (SCAN only)
	if !useSet {
		vSetNow(vT0, 0)
		vCmd(cs, "SET", "ngone", "1")
		vCmd(cs, "EXPIRE", "ngone", "10")
		vSetNow(vT0+100, 0)
	}
	count := vItoa(1 + vChoice("count", 3))
	mutateAt := vChoice("mutate-at", 4) // after this many calls
	mutation := vChoice("mutation", 4)  // 0 none, 1 grow (add up to the pool), 2 shrink (delete most), 3 delete everything
	seen := make([]bool, pool)
	cursor := "0"
	calls := 0
	done := false
	for calls < 64 && !done {
		if calls == mutateAt {
			switch mutation {
			case 1:
				for i := initial; i < pool; i++ {
					add(i)
					ever[i] = true
				}
			case 2:
				for i := 1; i < initial; i++ {
					del(i)
					always[i] = false
				}
			case 3:
				// the collection becomes empty in the middle of the iteration
				for i := 0; i < initial; i++ {
					del(i)
					always[i] = false
				}
			}
		}
		var r respValue
		switch {
		case useSet && filter == 1:
			r = vCmd(cs, "SSCAN", "s", cursor, "MATCH", "n*", "COUNT", count)
		case useSet:
			r = vCmd(cs, "SSCAN", "s", cursor, "COUNT", count)
		case filter == 1:
			r = vCmd(cs, "SCAN", cursor, "MATCH", "n*", "COUNT", count)
		case filter == 2:
			r = vCmd(cs, "SCAN", cursor, "COUNT", count, "TYPE", "string")
		default:
			r = vCmd(cs, "SCAN", cursor, "COUNT", count)
		}
		calls++
		a, ok := vArrayOf(r)
		vAssert("scan-reply-shape", ok && len(a) == 2)
		if !ok || len(a) != 2 {
			return
		}
		cursor, _ = vBulkOf(a[0])
		ks, _ := vArrayOf(a[1])
		for _, k := range ks {
			s, _ := vBulkOf(k)
			known := false
			for i := 0; i < pool; i++ {
				if s == name(i) {
					seen[i] = true
					known = true
					vAssert("scan-returns-only-keys-that-existed", ever[i])
				}
			}
			vAssert("scan-never-returns-an-expired-key", s != "ngone")
			vAssert("scan-returns-known-names", known)
		}
		if cursor == "0" {
			done = true
		}
	}
	vAssert("iteration-terminates", done)
	for i := 0; i < pool; i++ {
		if always[i] {
			vAssert("stable-key-returned", seen[i])
		}
	}
}
