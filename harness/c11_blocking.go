//go:build verif

package redisemu

// C11 — blocking pops: no lost wake-up, exactly-once delivery; C12 — how a
// block ends (timeout, CLIENT UNBLOCK, inside MULTI).  One connection runs
// the real blocking command; at every section boundary of its protocol and
// whenever it is parked in its select, the environment (another
// connection) performs zero or one command chosen symbolically.

import "sync/atomic"

type vBlockEnv struct {
	other   *clientState
	budget  int
	pushed  []string // elements pushed by the environment, in order
	taken   []string // elements popped by the environment
	nextEl  int
	fired   bool
	unblock int // 0 none, 1 TIMEOUT, 2 ERROR issued
	ureply  respValue
}

func (e *vBlockEnv) push(k string, n int) {
	args := []string{"RPUSH", k}
	for i := 0; i < n; i++ {
		el := "e" + vItoa(e.nextEl)
		e.nextEl++
		args = append(args, el)
		e.pushed = append(e.pushed, el)
	}
	vCmd(e.other, args...)
}

func (e *vBlockEnv) pop(k string) {
	r := vCmd(e.other, "LPOP", k)
	if s, ok := vBulkOf(r); ok {
		e.taken = append(e.taken, s)
	}
}

func vListLen(cs *clientState, k string) int64 {
	n, _ := vIntOf(vCmd(cs, "LLEN", k))
	return n
}

// VerifH_c11_blpop: BLPOP / BRPOP / BLMOVE k with timeout 0 against an
// environment of pushes, competing pops, DEL and RENAME.
func VerifH_c11_blpop() {
	VerifSetup()
	disp := vNewServer()
	cs := vNewClientOn(disp)
	env := &vBlockEnv{other: vNewClientOn(disp), budget: 3}
	cmd := vChoice("cmd", 5) // BLPOP, BRPOP, BLMOVE, BRPOPLPUSH, BLMPOP
	twoKeys := (cmd < 2 || cmd == 4) && vBool("two-keys")
	envChoices := 6
	if vTier() > 0 {
		envChoices = 9
	}
	var reply respValue
	vSetEnv(func(point string) bool {
		if env.budget == 0 {
			return false
		}
		switch vChoice("env", envChoices) {
		case 0:
			return false // nothing happens at this point
		case 1:
			env.push("k", 1)
		case 2:
			env.push("k", 2)
		case 3:
			env.pop("k")
		case 4:
			// DEL takes whatever is there
			a, _ := vArrayOf(vCmd(env.other, "LRANGE", "k", "0", "-1"))
			for _, x := range a {
				s, _ := vBulkOf(x)
				env.taken = append(env.taken, s)
			}
			vCmd(env.other, "DEL", "k")
		case 5:
			if twoKeys {
				env.push("k2", 1)
			} else {
				env.push("k", 1)
			}
		case 6:
			// LTRIM drops the head
			if h, ok := vBulkOf(vCmd(env.other, "LINDEX", "k", "0")); ok {
				env.taken = append(env.taken, h)
			}
			vCmd(env.other, "LTRIM", "k", "1", "-1")
		case 7:
			// RENAME moves the whole list away (its elements stay in a list)
			vCmd(env.other, "RENAME", "k", "k9")
		case 8:
			// a competing LMOVE takes the head into another list
			vCmd(env.other, "LMOVE", "k", "k8", "LEFT", "RIGHT")
		}
		env.budget--
		return true
	})
	parked := vRunBlockingOn(cs, func() {
		switch cmd {
		case 0:
			if twoKeys {
				reply = vCmd(cs, "BLPOP", "k", "k2", "0")
			} else {
				reply = vCmd(cs, "BLPOP", "k", "0")
			}
		case 1:
			if twoKeys {
				reply = vCmd(cs, "BRPOP", "k", "k2", "0")
			} else {
				reply = vCmd(cs, "BRPOP", "k", "0")
			}
		case 2:
			reply = vCmd(cs, "BLMOVE", "k", "dst", "LEFT", "RIGHT", "0")
		case 3:
			reply = vCmd(cs, "BRPOPLPUSH", "k", "dst", "0")
		case 4:
			if twoKeys {
				reply = vCmd(cs, "BLMPOP", "0", "2", "k", "k2", "LEFT")
			} else {
				reply = vCmd(cs, "BLMPOP", "0", "1", "k", "LEFT")
			}
		}
	})
	obs := env.other
	if parked {
		// no lost wake-up: nobody else will act any more, so a client parked on
		// k (and k2) while one of them is non-empty is stuck for ever
		vAssert("no-client-parked-on-a-non-empty-list", vListLen(obs, "k") == 0 && (!twoKeys || vListLen(obs, "k2") == 0))
		vReleaseWaiter(cs)
		return
	}
	// completed: exactly-once delivery
	var got string
	if cmd == 2 || cmd == 3 {
		got, _ = vBulkOf(reply)
	} else if cmd == 4 {
		// BLMPOP: [key, [element]]
		a, ok := vArrayOf(reply)
		vAssert("blmpop-reply-shape", ok && len(a) == 2)
		if !ok || len(a) != 2 {
			return
		}
		els, ok2 := vArrayOf(a[1])
		vAssert("blmpop-one-element", ok2 && len(els) == 1)
		if !ok2 || len(els) != 1 {
			return
		}
		got, _ = vBulkOf(els[0])
	} else {
		a, ok := vArrayOf(reply)
		vAssert("blocking-pop-reply-shape", ok && len(a) == 2)
		if !ok || len(a) != 2 {
			return
		}
		got, _ = vBulkOf(a[1])
	}
	wasPushed := false
	for _, p := range env.pushed {
		if p == got {
			wasPushed = true
		}
	}
	vAssert("returned-element-was-pushed", wasPushed)
	for _, t := range env.taken {
		vAssert("element-delivered-to-exactly-one-consumer", t != got)
	}
	// conservation: pushed = returned + taken by others + still in the lists
	remaining := vListLen(obs, "k") + vListLen(obs, "k2") + vListLen(obs, "dst") + vListLen(obs, "k8") + vListLen(obs, "k9")
	want := int64(len(env.pushed) - len(env.taken))
	if cmd != 2 && cmd != 3 {
		want-- // BLMOVE / BRPOPLPUSH keep their element in dst
	}
	vAssert("no-element-lost-or-duplicated", remaining == want)
	// the connection is back to normal
	vAssert("not-blocked-afterwards", atomic.LoadInt32(&cs.blocked) == CS_UNCAPTURED)
	vAssert("next-command-works", vIsOK(vCmd(cs, "SET", "after", "1")))
	vReach("woken-after-parking", len(env.pushed) > 0)
}

// VerifH_c12_unblock: CLIENT UNBLOCK / timeout end exactly the blocked
// client's command, the reply says whether it was blocked, and the
// connection can block again afterwards.
func VerifH_c12_unblock() {
	VerifSetup()
	disp := vNewServer()
	cs := vNewClientOn(disp)
	other := vNewClientOn(disp)
	third := vNewClientOn(disp)
	how := vChoice("how", 3) // 0 CLIENT UNBLOCK (TIMEOUT), 1 CLIENT UNBLOCK ERROR, 2 the timer fires
	timeout := "0"
	if how == 2 {
		timeout = "0.05"
	}
	id := vItoa(int(cs.id))
	// unblocking a client that is not blocked reports 0 and has no effect
	vAssert("unblock-idle-client-0", vIsInt(vCmd(other, "CLIENT", "UNBLOCK", id), 0))
	vAssert("unblock-unknown-id-0", vIsInt(vCmd(other, "CLIENT", "UNBLOCK", "999999"), 0))
	done := false
	var ureply respValue
	vSetEnv(func(point string) bool {
		if point != "select" || done {
			return false
		}
		done = true
		switch how {
		case 0:
			ureply = vCmd(other, "CLIENT", "UNBLOCK", id)
		case 1:
			ureply = vCmd(other, "CLIENT", "UNBLOCK", id, "ERROR")
		case 2:
			vFireTimer()
		}
		return true
	})
	var reply respValue
	parked := vRunBlockingOn(cs, func() { reply = vCmd(cs, "BLPOP", "k", timeout) })
	vAssert("block-ended", !parked)
	if parked {
		vReleaseWaiter(cs)
		return
	}
	switch how {
	case 0:
		vAssert("unblock-reports-1", vIsInt(ureply, 1))
		vAssert("unblock-timeout-null-reply", vIsNil(reply))
	case 1:
		vAssert("unblock-error-reports-1", vIsInt(ureply, 1))
		vAssert("unblock-error-reply", vIsErr(reply))
	case 2:
		vAssert("timeout-null-reply", vIsNil(reply))
	}
	// state reset: the connection is not blocked, nothing is pending, it is not queued anywhere
	vAssert("not-captured", atomic.LoadInt32(&cs.blocked) == CS_UNCAPTURED)
	vAssert("no-pending-unblock", atomic.LoadInt32(&cs.unblockPending) == 0 && len(cs.unblockCh) == 0)
	vAssert("left-every-wait-queue", len(cs.ds.waitingClients.table) == 0)
	vAssert("unblock-after-the-fact-0", vIsInt(vCmd(other, "CLIENT", "UNBLOCK", id), 0))
	// a later push stays in the list for live consumers
	vCmd(third, "RPUSH", "k", "x")
	vAssert("later-push-stays", vListLen(third, "k") == 1)
	// and the connection can block and be served again
	vSetEnv(func(point string) bool {
		if point != "select" {
			return false
		}
		if vListLen(third, "k") == 0 {
			vCmd(third, "RPUSH", "k", "y")
			return true
		}
		return false
	})
	var reply2 respValue
	parked2 := vRunBlockingOn(cs, func() { reply2 = vCmd(cs, "BRPOP", "k", "0") })
	vAssert("second-block-served", !parked2)
	if parked2 {
		vReleaseWaiter(cs)
		return
	}
	a, ok := vArrayOf(reply2)
	vAssert("second-block-reply", ok && len(a) == 2 && vIsBulk(a[1], "x"))
}

// VerifH_c12_timeout_arith: the deadline handed to the timer for a timeout
// given in (fractional) seconds.
func VerifH_c12_timeout_arith() {
	VerifSetup()
	cs := vNewClient()
	// inside MULTI/EXEC a blocking command never blocks
	vCmd(cs, "MULTI")
	vCmd(cs, "BLPOP", "k", "0")
	vCmd(cs, "BRPOPLPUSH", "k", "d", "0")
	vCmd(cs, "BLMPOP", "0", "1", "k", "LEFT")
	r := vCmd(cs, "EXEC")
	a, ok := vArrayOf(r)
	vAssert("blocking-commands-inside-exec-return-null", ok && len(a) == 3 && vIsNil(a[0]) && vIsNil(a[1]) && vIsNil(a[2]))
}

// VerifH_c11_waittable: the wait table with three waiters registered in
// order on symbolic subsets of two keys: unblock(name, n) signals the first
// min(n, queued) waiters of that key in registration order, a signalled
// waiter leaves every queue it is in, the others keep their place, empty
// queues disappear, and both linked structures stay consistent.
func VerifH_c11_waittable() {
	wt := newWaitTable()
	keys := []string{"a", "b"}
	var ws [3]*wakeSignal
	var on [3][2]bool
	for i := 0; i < 3; i++ {
		sel := 1 + vChoice("keys", 3) // bit0: a, bit1: b
		var names []string
		for j := 0; j < 2; j++ {
			if sel>>j&1 == 1 {
				on[i][j] = true
				names = append(names, keys[j])
			}
		}
		if len(names) == 1 {
			ws[i] = wt.enterWait(names[0])
		} else {
			ws[i] = wt.enterMultiWait(names)
		}
	}
	target := vChoice("target", 2)
	n := vChoice("n", 4)
	wt.unblock(keys[target], n)
	// expected: the first n waiters (in registration order) queued on the target
	signalled := [3]bool{}
	left := n
	for i := 0; i < 3; i++ {
		if on[i][target] && left > 0 {
			signalled[i] = true
			left--
		}
	}
	for i := 0; i < 3; i++ {
		if signalled[i] {
			vAssert("longest-waiter-gets-the-token", len(ws[i].ready) == 1)
			vAssert("signalled-waiter-left-all-queues", ws[i].objectsHead == nil && ws[i].objectsTail == nil)
		} else {
			vAssert("other-waiters-not-signalled", len(ws[i].ready) == 0)
		}
	}
	// the queues hold exactly the unsignalled waiters, in registration order
	for j := 0; j < 2; j++ {
		var want []*wakeSignal
		for i := 0; i < 3; i++ {
			if on[i][j] && !signalled[i] {
				want = append(want, ws[i])
			}
		}
		list, exists := wt.table[keys[j]]
		vAssert("empty-queue-removed-from-table", exists == (len(want) > 0))
		if !exists {
			continue
		}
		k := 0
		okq := true
		var prev *signalListTuple
		for ref := list.queueHead; ref != nil && k <= len(want); ref = ref.queueNext {
			if k >= len(want) || ref.signal != want[k] || ref.queuePrev != prev || ref.waitList != list {
				okq = false
			}
			prev = ref
			k++
		}
		vAssert("queue-order-preserved", okq && k == len(want) && list.queueTail == prev)
	}
	// disposing a remaining waiter removes it everywhere
	for i := 0; i < 3; i++ {
		if !signalled[i] {
			wt.disposeWakeSignal(ws[i])
		} else {
			wt.disposeWakeSignal(ws[i])
		}
	}
	vAssert("table-empty-after-all-left", len(wt.table) == 0)
}

func vBlockingArgs(cmd int, timeout string) []string {
	switch cmd {
	case 0:
		return []string{"BLPOP", "k", timeout}
	case 1:
		return []string{"BRPOP", "k", timeout}
	case 2:
		return []string{"BLMOVE", "k", "dst", "LEFT", "RIGHT", timeout}
	case 3:
		return []string{"BRPOPLPUSH", "k", "dst", timeout}
	}
	return []string{"BLMPOP", timeout, "1", "k", "LEFT"}
}

// VerifH_c12_timer: the timer a blocking command arms.  With timeout t > 0
// the strand waits on a timer of exactly t; when it is woken but another
// consumer has taken the element (20 ms later on the harness clock) it waits
// again on a timer of exactly t - 20 ms, so the total is t; when the timer
// fires the reply is null and the connection is back to normal.  Timeout 0
// arms no deadline that can be reached.
func VerifH_c12_timer() {
	VerifSetup()
	vSetNow(vT0, 0)
	disp := vNewServer()
	cs := vNewClientOn(disp)
	other := vNewClientOn(disp)
	cmd := vChoice("cmd", 5)
	ti := vChoice("timeout", 5)
	tstr := []string{"0", "0.05", "1", "2.5", "1000000"}[ti]
	tns := []int64{0, 50000000, 1000000000, 2500000000, 1000000000000000}[ti]
	steal := vBool("steal")
	stage := 0
	var armed1, armed2 int64 = -2, -2
	vSetEnv(func(point string) bool {
		if point != "select" {
			return false
		}
		switch stage {
		case 0:
			armed1 = vTimerArmedNs()
			stage = 1
			if steal {
				// 20 ms later an element arrives and a competing consumer takes
				// it before the woken waiter retries
				vSetNow(vT0, 20000000)
				vCmd(other, "RPUSH", "k", "x")
				vCmd(other, "LPOP", "k")
				return true
			}
			if tns != 0 {
				vFireTimer()
				return true
			}
		case 1:
			armed2 = vTimerArmedNs()
			stage = 2
			if tns != 0 {
				vFireTimer()
				return true
			}
		}
		return false
	})
	var reply respValue
	parked := vRunBlockingOn(cs, func() { reply = vCmd(cs, vBlockingArgs(cmd, tstr)...) })
	vAssert("timer-first-wait-seen", stage >= 1)
	if tns == 0 {
		vAssert("timeout-0-waits-indefinitely", parked)
		// a deadline that cannot be reached: more than a century
		vAssert("timeout-0-no-reachable-deadline", armed1 > 3000000000000000000)
		if parked {
			vReleaseWaiter(cs)
		}
		return
	}
	vAssert("timed-block-ends-when-the-timer-fires", !parked)
	if parked {
		vReleaseWaiter(cs)
		return
	}
	vAssert("timer-armed-with-the-timeout", armed1 == tns)
	if steal {
		vAssert("second-wait-seen", stage == 2)
		vAssert("remaining-time-after-a-lost-race", armed2 == tns-20000000)
	}
	vAssert("timeout-null-reply", vIsNil(reply))
	vAssert("timer-not-captured-afterwards", atomic.LoadInt32(&cs.blocked) == CS_UNCAPTURED)
	vAssert("timer-left-every-wait-queue", len(cs.ds.waitingClients.table) == 0)
	vAssert("timer-next-command-works", vIsOK(vCmd(cs, "SET", "after", "1")))
}

// VerifH_c12_unblock_anytime: CLIENT UNBLOCK [TIMEOUT|ERROR] arriving at an
// arbitrary point of the block protocol of any of the five blocking
// commands: it reports 1 exactly when it ends the block (null reply or
// UNBLOCKED error, connection back to normal), and 0 when the client goes on
// to wait; it is never lost and never ends a later block.
func VerifH_c12_unblock_anytime() {
	VerifSetup()
	disp := vNewServer()
	cs := vNewClientOn(disp)
	other := vNewClientOn(disp)
	cmd := vChoice("cmd", 5)
	asError := vBool("error")
	id := vItoa(int(cs.id))
	done := false
	atSelect := false
	var ureply respValue
	vSetEnv(func(point string) bool {
		if done {
			return false
		}
		if !vBool("now") {
			return false
		}
		done = true
		atSelect = point == "select"
		if asError {
			ureply = vCmd(other, "CLIENT", "UNBLOCK", id, "ERROR")
		} else {
			ureply = vCmd(other, "CLIENT", "UNBLOCK", id)
		}
		return true
	})
	var reply respValue
	parked := vRunBlockingOn(cs, func() { reply = vCmd(cs, vBlockingArgs(cmd, "0")...) })
	if !done {
		vAssert("nothing-ends-an-indefinite-block", parked)
		if parked {
			vReleaseWaiter(cs)
		}
		return
	}
	if atSelect {
		vAssert("unblock-of-a-waiting-client-reports-1", vIsInt(ureply, 1))
	}
	if vIsInt(ureply, 1) {
		vAssert("reported-unblock-ends-the-block", !parked)
		if parked {
			vReleaseWaiter(cs)
			return
		}
		if asError {
			vAssert("unblock-error-reply", vIsErr(reply))
		} else {
			vAssert("unblock-null-reply", vIsNil(reply))
		}
		vAssert("unblocked-not-captured", atomic.LoadInt32(&cs.blocked) == CS_UNCAPTURED)
		vAssert("unblocked-nothing-pending", atomic.LoadInt32(&cs.unblockPending) == 0 && len(cs.unblockCh) == 0)
		vAssert("unblocked-left-every-wait-queue", len(cs.ds.waitingClients.table) == 0)
		// a later push stays in the list; the connection can block again and is served
		vCmd(other, "RPUSH", "k", "x")
		vAssert("later-push-stays", vListLen(other, "k") == 1)
		var r2 respValue
		vSetEnv(func(point string) bool { return false })
		parked2 := vRunBlockingOn(cs, func() { r2 = vCmd(cs, "BLPOP", "k", "0") })
		vAssert("blocks-again-and-is-served", !parked2)
		if parked2 {
			vReleaseWaiter(cs)
			return
		}
		a, ok := vArrayOf(r2)
		vAssert("second-block-reply", ok && len(a) == 2 && vIsBulk(a[1], "x"))
		return
	}
	vAssert("unblock-reports-0-or-1", vIsInt(ureply, 0))
	// not blocked at that moment: the unblock must not be remembered
	vAssert("unreported-unblock-does-not-end-the-block", parked)
	if parked {
		vReleaseWaiter(cs)
	}
}

// VerifH_c11_signals: whoever puts n elements into a list that clients are
// waiting on must wake n of them (a woken waiter takes one element; waiters
// can be queued on a momentarily non-empty list: woken but not yet retried,
// or several commands in one transaction).  Two waiters are registered on k
// through the real wait table, one command runs, and the number of
// signalled waiters must be min(2, elements that arrived in k), oldest
// waiter first.  This is the per-command half of "no lost wake-up"; the
// protocol half (what a woken waiter does) is VerifH_c11_blpop.
func VerifH_c11_signals() {
	VerifSetup()
	cs := vNewClient()
	ds := cs.ds
	vCmd(cs, "RPUSH", "src", "s1", "s2", "s3")
	vCmd(cs, "SADD", "st", "3", "1")
	existing := vBool("k-exists") // k holds one element already (waiters woken but not yet retried)
	if existing {
		vCmd(cs, "RPUSH", "k", "x")
	}
	w1 := ds.enterListBlock("k")
	w2 := ds.enterListBlock("k")
	type tc struct {
		args   []string
		needsK bool // only meaningful when k exists
		adds   int  // elements that arrive in k
	}
	cases := []tc{
		{[]string{"RPUSH", "k", "a"}, false, 1}, {[]string{"RPUSH", "k", "a", "b"}, false, 2}, {[]string{"LPUSH", "k", "a"}, false, 1},
		{[]string{"LPUSH", "k", "a", "b", "c"}, false, 3}, {[]string{"RPUSHX", "k", "a"}, true, 1}, {[]string{"LPUSHX", "k", "a", "b"}, true, 2},
		{[]string{"LINSERT", "k", "BEFORE", "x", "a"}, true, 1}, {[]string{"LINSERT", "k", "AFTER", "x", "a"}, true, 1},
		{[]string{"LMOVE", "src", "k", "LEFT", "RIGHT"}, false, 1}, {[]string{"RPOPLPUSH", "src", "k"}, false, 1},
		// a rotation takes an element and puts one back: the list is non-empty again, so the
		// wake-up the rotating client consumed must be handed on
		{[]string{"LMOVE", "k", "k", "LEFT", "RIGHT"}, true, 1}, {[]string{"RPOPLPUSH", "k", "k"}, true, 1},
		{[]string{"RENAME", "src", "k"}, false, 3}, {[]string{"COPY", "src", "k", "REPLACE"}, false, 3}, {[]string{"SORT", "st", "STORE", "k"}, false, 2},
		{[]string{"LSET", "k", "0", "z"}, true, 0}, {[]string{"LREM", "k", "0", "nosuch"}, true, 0}, {[]string{"SET", "other", "1"}, false, 0},
		{[]string{"RPUSH", "other", "a"}, false, 0}, {[]string{"LRANGE", "k", "0", "-1"}, false, 0},
	}
	c := cases[vChoice("case", len(cases))]
	vAssume(existing || !c.needsK)
	r := vCmd(cs, c.args...)
	vAssert("signal-case-command-succeeds", !vIsErr(r))
	want := c.adds
	if want > 2 {
		want = 2
	}
	got := len(w1.ready) + len(w2.ready)
	vAssert("one-waiter-woken-per-arriving-element", got == want)
	if want == 1 {
		vAssert("oldest-waiter-woken-first", len(w1.ready) == 1)
	}
	ds.leaveListBlock(w1)
	ds.leaveListBlock(w2)
}

// VerifH_c12_leave_queue: a block that ends without data (timeout, CLIENT
// UNBLOCK, disconnect) takes exactly that client out of the wait queues:
// three waiters registered in order on symbolic subsets of two keys, one of
// them (any) leaves; the others keep their places, the queues stay
// consistent, and a later push still serves the remaining waiters, oldest
// first.
func VerifH_c12_leave_queue() {
	wt := newWaitTable()
	keys := []string{"a", "b"}
	var ws [3]*wakeSignal
	var on [3][2]bool
	for i := 0; i < 3; i++ {
		sel := 1 + vChoice("keys", 3) // bit0: a, bit1: b
		var names []string
		for j := 0; j < 2; j++ {
			if sel>>j&1 == 1 {
				on[i][j] = true
				names = append(names, keys[j])
			}
		}
		if len(names) == 1 {
			ws[i] = wt.enterWait(names[0])
		} else {
			ws[i] = wt.enterMultiWait(names)
		}
	}
	leaver := vChoice("leaver", 3)
	wt.disposeWakeSignal(ws[leaver])
	vAssert("leaver-not-signalled", len(ws[leaver].ready) == 0)
	for j := 0; j < 2; j++ {
		var want []*wakeSignal
		for i := 0; i < 3; i++ {
			if on[i][j] && i != leaver {
				want = append(want, ws[i])
			}
		}
		list, exists := wt.table[keys[j]]
		vAssert("queue-kept-while-others-wait", exists == (len(want) > 0))
		if !exists {
			continue
		}
		k := 0
		okq := true
		for ref := list.queueHead; ref != nil && k <= len(want); ref = ref.queueNext {
			if k >= len(want) || ref.signal != want[k] {
				okq = false
			}
			k++
		}
		vAssert("remaining-waiters-keep-their-order", okq && k == len(want))
	}
	// a later push on either key serves the oldest remaining waiter of that key
	target := vChoice("target", 2)
	wt.unblock(keys[target], 1)
	served := -1
	for i := 0; i < 3; i++ {
		if i != leaver && on[i][target] {
			served = i
			break
		}
	}
	for i := 0; i < 3; i++ {
		if i == served {
			vAssert("later-push-serves-the-oldest-remaining-waiter", len(ws[i].ready) == 1)
		} else {
			vAssert("nobody-else-is-signalled", len(ws[i].ready) == 0)
		}
	}
}
