//go:build verif

package redisemu

// C03 — list commands behave as Redis 7 (t_list.c).  A list of symbolic
// length and symbolic one-byte elements is built with the real RPUSH; one
// command with unconstrained int64 arguments is applied; reply, resulting
// content/order, LLEN and key existence are compared with a Go-slice model.
// The post-state is checked through the representation invariant as well
// (head/tail/next/prev/count consistent), which makes the step inductive
// within the size bound.

func vListBound() int {
	if vTier() > 0 {
		return 5
	}
	return 3
}

// vMkList builds key k with n in 0..bound symbolic elements; returns the model.
func vMkList(cs *clientState, k, name string, bound int) []string {
	n := vChoice(name+".n", bound+1)
	m := make([]string, 0, n)
	for i := 0; i < n; i++ {
		e := vStringN(name+".e", 1)
		m = append(m, e)
		vCmd(cs, "RPUSH", k, e)
	}
	return m
}

// vListIs asserts that key k holds exactly the model list (order included),
// that an empty model means the key is gone, and that the linked structure
// is canonical.
func vListIs(cs *clientState, label, k string, m []string) {
	r := vCmd(cs, "LRANGE", k, "0", "-1")
	a, ok := vArrayOf(r)
	vAssert(label+"-lrange-array", ok)
	if !ok {
		return
	}
	vAssert(label+"-length", len(a) == len(m))
	if len(a) == len(m) {
		same := true
		for i := range m {
			same = vAnd(same, vIsBulk(a[i], m[i]))
		}
		vAssert(label+"-content-order", same)
	}
	vAssert(label+"-llen", vIsInt(vCmd(cs, "LLEN", k), int64(len(m))))
	ex := int64(1)
	if len(m) == 0 {
		ex = 0
	}
	vAssert(label+"-exists", vIsInt(vCmd(cs, "EXISTS", k), ex))
	vCanonList(cs, label, k, len(m))
}

// vCanonList checks the doubly linked representation directly.
func vCanonList(cs *clientState, label, k string, n int) {
	sk, exists := cs.ds.getStoreKey(k)
	if !exists {
		vAssert(label+"-canon-absent", n == 0)
		return
	}
	sl := sk.getList()
	if sl == nil {
		return
	}
	okc := sl.count == n
	cnt := 0
	var prev *listItem
	for p := sl.head; p != nil && cnt <= n+1; p = p.next {
		if p.prev != prev {
			okc = false
		}
		prev = p
		cnt++
	}
	if cnt != n || sl.tail != prev {
		okc = false
	}
	if n > 0 && (sl.head == nil || sl.head.prev != nil || sl.tail.next != nil) {
		okc = false
	}
	vAssert(label+"-canonical-links", okc)
}

func vArrayIs(r respValue, m []string) bool {
	a, ok := vArrayOf(r)
	if !ok || len(a) != len(m) {
		return false
	}
	same := true
	for i := range m {
		same = vAnd(same, vIsBulk(a[i], m[i]))
	}
	return same
}

func vOtherTypeSeed(cs *clientState, k string, which int) {
	switch which {
	case 0:
		vCmd(cs, "SET", k, "x")
	case 1:
		vCmd(cs, "HSET", k, "f", "v")
	case 2:
		vCmd(cs, "SADD", k, "m")
	}
}

// VerifH_c03_pushpop: LPUSH/RPUSH/LPUSHX/RPUSHX and LPOP/RPOP with and
// without count (all int64 counts).
func VerifH_c03_pushpop() {
	VerifSetup()
	cs := vNewClient()
	wrong := vBool("wrongtype")
	var m []string
	if wrong {
		vOtherTypeSeed(cs, "k", vChoice("other", 3))
	} else {
		m = vMkList(cs, "k", "l", vListBound())
	}
	cmd := vChoice("cmd", 6)
	switch cmd {
	case 0, 1, 2, 3: // LPUSH RPUSH LPUSHX RPUSHX with two elements
		e1, e2 := vStringN("x", 1), vStringN("x", 1)
		name := []string{"LPUSH", "RPUSH", "LPUSHX", "RPUSHX"}[cmd]
		r := vCmd(cs, name, "k", e1, e2)
		if wrong {
			vAssert("push-wrongtype", vIsErr(r))
			vAssert("push-wrongtype-inert", vTypeOf(cs, "k") != "list")
			return
		}
		if cmd >= 2 && len(m) == 0 {
			vAssert("pushx-missing-0", vIsInt(r, 0))
			vListIs(cs, "pushx-missing", "k", m)
			return
		}
		if cmd == 0 || cmd == 2 {
			m = append([]string{e2, e1}, m...)
		} else {
			m = append(m, e1, e2)
		}
		vAssert("push-reply-len", vIsInt(r, int64(len(m))))
		vListIs(cs, "push", "k", m)
	case 4, 5: // LPOP / RPOP
		name := "LPOP"
		if cmd == 5 {
			name = "RPOP"
		}
		withCount := vBool("withcount")
		var r respValue
		var count int64
		panicked := false
		msg := ""
		if withCount {
			cstr := vDecimal("count")
			count = vDecimalOf(cstr)
			panicked, msg = vCatch(func() { r = vCmd(cs, name, "k", cstr) })
		} else {
			r = vCmd(cs, name, "k")
		}
		vAssert("pop-no-panic", !panicked)
		if panicked {
			vNote(msg)
			return
		}
		if withCount && count < 0 {
			vAssert("pop-negative-count-error", vIsErr(r))
			return
		}
		if wrong {
			vAssert("pop-wrongtype", vIsErr(r))
			return
		}
		if len(m) == 0 {
			vAssert("pop-missing-nil", vIsNil(r))
			return
		}
		if !withCount {
			if cmd == 4 {
				vAssert("lpop-head", vIsBulk(r, m[0]))
				m = m[1:]
			} else {
				vAssert("rpop-tail", vIsBulk(r, m[len(m)-1]))
				m = m[:len(m)-1]
			}
			vListIs(cs, "pop", "k", m)
			return
		}
		k := len(m)
		if count < int64(k) {
			k = int(count)
		}
		var taken []string
		if cmd == 4 {
			taken = m[:k]
			m = m[k:]
		} else {
			for i := 0; i < k; i++ {
				taken = append(taken, m[len(m)-1-i])
			}
			m = m[:len(m)-k]
		}
		vAssert("pop-count-array", vArrayIs(r, taken))
		vListIs(cs, "pop-count", "k", m)
		vReach("pop-all-removes-key", len(m) == 0 && k > 1)
	}
}

// refIndex normalises a Redis list index; ok=false when out of range.
func refIndex(n int, idx int64) (int, bool) {
	if idx < 0 {
		idx += int64(n)
	}
	if idx < 0 || idx >= int64(n) {
		return 0, false
	}
	return int(idx), true
}

// VerifH_c03_index: LINDEX, LSET, LRANGE, LTRIM with all int64 indexes.
func VerifH_c03_index() {
	VerifSetup()
	cs := vNewClient()
	wrong := vBool("wrongtype")
	var m []string
	if wrong {
		vOtherTypeSeed(cs, "k", vChoice("other", 3))
	} else {
		m = vMkList(cs, "k", "l", vListBound())
	}
	n := len(m)
	switch vChoice("cmd", 4) {
	case 0: // LINDEX
		is := vDecimal("i")
		i := vDecimalOf(is)
		r := vCmd(cs, "LINDEX", "k", is)
		if wrong {
			vAssert("lindex-wrongtype", vIsErr(r))
			return
		}
		j, ok := refIndex(n, i)
		if ok {
			vAssert("lindex-element", vIsBulk(r, m[j]))
		} else {
			vAssert("lindex-out-of-range-nil", vIsNil(r))
		}
		vListIs(cs, "lindex-readonly", "k", m)
	case 1: // LSET
		is := vDecimal("i")
		i := vDecimalOf(is)
		e := vStringN("x", 1)
		r := vCmd(cs, "LSET", "k", is, e)
		if wrong {
			vAssert("lset-wrongtype", vIsErr(r))
			return
		}
		j, ok := refIndex(n, i)
		if n == 0 || !ok {
			vAssert("lset-error", vIsErr(r))
			vListIs(cs, "lset-error-inert", "k", m)
			return
		}
		vAssert("lset-ok", vIsOK(r))
		m2 := append([]string{}, m...)
		m2[j] = e
		vListIs(cs, "lset", "k", m2)
	case 2: // LRANGE
		ss, es := vDecimal("start"), vDecimal("stop")
		start, end := vDecimalOf(ss), vDecimalOf(es)
		r := vCmd(cs, "LRANGE", "k", ss, es)
		if wrong {
			vAssert("lrange-wrongtype", vIsErr(r))
			return
		}
		// lrangeCommand
		llen := int64(n)
		if start < 0 {
			start += llen
		}
		if end < 0 {
			end += llen
		}
		if start < 0 {
			start = 0
		}
		var want []string
		if !(start > end || start >= llen) {
			if end >= llen {
				end = llen - 1
			}
			want = m[start : end+1]
		}
		vAssert("lrange-result", vArrayIs(r, want))
	case 3: // LTRIM
		ss, es := vDecimal("start"), vDecimal("stop")
		start, end := vDecimalOf(ss), vDecimalOf(es)
		r := vCmd(cs, "LTRIM", "k", ss, es)
		if wrong {
			vAssert("ltrim-wrongtype", vIsErr(r))
			return
		}
		vAssert("ltrim-ok", vIsOK(r))
		llen := int64(n)
		if start < 0 {
			start += llen
		}
		if end < 0 {
			end += llen
		}
		if start < 0 {
			start = 0
		}
		var want []string
		if !(start > end || start >= llen) {
			if end >= llen {
				end = llen - 1
			}
			want = m[start : end+1]
		}
		vListIs(cs, "ltrim", "k", want)
		vReach("ltrim-to-empty", len(want) == 0 && n > 0)
	}
}

// VerifH_c03_edit: LINSERT, LREM (all int64 counts).
func VerifH_c03_edit() {
	VerifSetup()
	cs := vNewClient()
	wrong := vBool("wrongtype")
	var m []string
	if wrong {
		vOtherTypeSeed(cs, "k", vChoice("other", 3))
	} else {
		m = vMkList(cs, "k", "l", vListBound())
	}
	n := len(m)
	switch vChoice("cmd", 2) {
	case 0: // LINSERT
		before := vBool("before")
		where := "AFTER"
		if before {
			where = "BEFORE"
		}
		pivot := vStringN("pivot", 1)
		e := vStringN("x", 1)
		r := vCmd(cs, "LINSERT", "k", where, pivot, e)
		if wrong {
			vAssert("linsert-wrongtype", vIsErr(r))
			return
		}
		if n == 0 {
			vAssert("linsert-missing-0", vIsInt(r, 0))
			vListIs(cs, "linsert-missing", "k", m)
			return
		}
		pos := -1
		for i := 0; i < n; i++ {
			if pos < 0 && m[i] == pivot {
				pos = i
			}
		}
		if pos < 0 {
			vAssert("linsert-nopivot--1", vIsInt(r, -1))
			vListIs(cs, "linsert-nopivot", "k", m)
			return
		}
		at := pos
		if !before {
			at = pos + 1
		}
		m2 := append([]string{}, m[:at]...)
		m2 = append(m2, e)
		m2 = append(m2, m[at:]...)
		vAssert("linsert-len", vIsInt(r, int64(len(m2))))
		vListIs(cs, "linsert", "k", m2)
	case 1: // LREM
		cstr := vDecimal("count")
		count := vDecimalOf(cstr)
		// outside the claim: -2^63 (its negation is undefined in Redis' C code)
		vAssume(count != -9223372036854775808)
		e := vStringN("x", 1)
		r := vCmd(cs, "LREM", "k", cstr, e)
		if wrong {
			vAssert("lrem-wrongtype", vIsErr(r))
			return
		}
		// lremCommand
		removed := 0
		keep := make([]bool, n)
		for i := range keep {
			keep[i] = true
		}
		if count >= 0 {
			for i := 0; i < n; i++ {
				if (count == 0 || int64(removed) < count) && m[i] == e {
					keep[i] = false
					removed++
				}
			}
		} else {
			for i := n - 1; i >= 0; i-- {
				// -count may overflow for MinInt64: compare in the negative domain
				if -int64(removed) > count && m[i] == e {
					keep[i] = false
					removed++
				}
			}
		}
		var m2 []string
		for i := 0; i < n; i++ {
			if keep[i] {
				m2 = append(m2, m[i])
			}
		}
		vAssert("lrem-count", vIsInt(r, int64(removed)))
		vListIs(cs, "lrem", "k", m2)
		vReach("lrem-removes-key", removed > 0 && len(m2) == 0)
	}
}

// VerifH_c03_lpos: LPOS with RANK / COUNT / MAXLEN (all int64 values).
func VerifH_c03_lpos() {
	VerifSetup()
	cs := vNewClient()
	m := vMkList(cs, "k", "l", vListBound())
	n := len(m)
	e := vStringN("x", 1)
	args := []string{"LPOS", "k", e}
	hasRank, hasCount, hasMax := vBool("hasrank"), vBool("hascount"), vBool("hasmaxlen")
	var rank, count, maxlen int64 = 1, 1, 0
	if hasRank {
		s := vDecimal("rank")
		rank = vDecimalOf(s)
		// outside the claim: RANK -2^63 (rejected only by later Redis versions)
		vAssume(rank != -9223372036854775808)
		args = append(args, "RANK", s)
	}
	if hasCount {
		s := vDecimal("count")
		count = vDecimalOf(s)
		args = append(args, "COUNT", s)
	}
	if hasMax {
		s := vDecimal("maxlen")
		maxlen = vDecimalOf(s)
		args = append(args, "MAXLEN", s)
	}
	var r respValue
	panicked, msg := vCatch(func() { r = vCmd(cs, args...) })
	vAssert("lpos-no-panic", !panicked)
	if panicked {
		vNote(msg)
		return
	}
	if rank == 0 || count < 0 || maxlen < 0 {
		vAssert("lpos-bad-arg-error", vIsErr(r))
		return
	}
	// lposCommand
	var matches []int64
	matchcount := int64(0)
	compared := int64(0)
	absRank := rank
	if rank < 0 {
		absRank = -rank
	}
	for step := 0; step < n; step++ {
		i := step
		if rank < 0 {
			i = n - 1 - step
		}
		if maxlen != 0 && compared >= maxlen {
			break
		}
		if count != 0 && int64(len(matches)) >= count {
			break
		}
		compared++
		if m[i] == e {
			matchcount++
			if matchcount >= absRank {
				matches = append(matches, int64(i))
			}
		}
	}
	if hasCount {
		a, ok := vArrayOf(r)
		if n == 0 {
			// Redis: missing key -> nil for the plain form, empty array with COUNT
			vAssert("lpos-count-missing-empty", ok && len(a) == 0 || vIsNil(r))
			return
		}
		vAssert("lpos-count-array", ok && len(a) == len(matches))
		if ok && len(a) == len(matches) {
			same := true
			for i := range matches {
				same = vAnd(same, vIsInt(a[i], matches[i]))
			}
			vAssert("lpos-count-positions", same)
		}
	} else if len(matches) > 0 {
		vAssert("lpos-first", vIsInt(r, matches[0]))
	} else {
		vAssert("lpos-none-nil", vIsNil(r))
	}
	vListIs(cs, "lpos-readonly", "k", m)
	vReach("lpos-rank2", hasRank && rank == 2 && len(matches) > 0)
	vReach("lpos-reverse", hasRank && rank < 0 && len(matches) > 0)
}

// VerifH_c03_move: LMOVE / RPOPLPUSH incl. source = destination, LMPOP.
func VerifH_c03_move() {
	VerifSetup()
	cs := vNewClient()
	src := vMkList(cs, "a", "a", vListBound())
	same := vBool("samekey")
	dstKind := vChoice("dstkind", 3) // 0 list (maybe empty/missing), 1 string, 2 missing
	var dst []string
	if !same {
		switch dstKind {
		case 0:
			dst = vMkList(cs, "b", "b", 2)
		case 1:
			vCmd(cs, "SET", "b", "x")
		}
	}
	dk := "b"
	if same {
		dk = "a"
	}
	cmd := vChoice("cmd", 3)
	switch cmd {
	case 0, 1: // LMOVE / RPOPLPUSH
		fromLeft, toLeft := vBool("fromleft"), vBool("toleft")
		var r respValue
		if cmd == 1 {
			fromLeft, toLeft = false, true
			r = vCmd(cs, "RPOPLPUSH", "a", dk)
		} else {
			f, t := "RIGHT", "RIGHT"
			if fromLeft {
				f = "LEFT"
			}
			if toLeft {
				t = "LEFT"
			}
			r = vCmd(cs, "LMOVE", "a", dk, f, t)
		}
		if len(src) == 0 {
			vAssert("lmove-missing-nil", vIsNil(r))
			if !same && dstKind == 0 {
				vListIs(cs, "lmove-missing-dst", "b", dst)
			}
			return
		}
		if !same && dstKind == 1 {
			vAssert("lmove-dst-wrongtype", vIsErr(r))
			vListIs(cs, "lmove-dst-wrongtype-src-inert", "a", src)
			return
		}
		var e string
		if fromLeft {
			e = src[0]
			src = src[1:]
		} else {
			e = src[len(src)-1]
			src = src[:len(src)-1]
		}
		vAssert("lmove-reply", vIsBulk(r, e))
		if same {
			if toLeft {
				src = append([]string{e}, src...)
			} else {
				src = append(append([]string{}, src...), e)
			}
			vListIs(cs, "lmove-rotate", "a", src)
			vReach("lmove-rotate-single", len(src) == 1)
		} else {
			if toLeft {
				dst = append([]string{e}, dst...)
			} else {
				dst = append(append([]string{}, dst...), e)
			}
			vListIs(cs, "lmove-src", "a", src)
			vListIs(cs, "lmove-dst", "b", dst)
		}
	case 2: // LMPOP 2 a b LEFT|RIGHT [COUNT c]
		if same || dstKind == 1 {
			return
		}
		left := vBool("left")
		side := "RIGHT"
		if left {
			side = "LEFT"
		}
		hasCount := vBool("hascount")
		count := int64(1)
		args := []string{"LMPOP", "2", "a", "b", side}
		if hasCount {
			s := vDecimal("count")
			count = vDecimalOf(s)
			args = append(args, "COUNT", s)
		}
		var r respValue
		panicked, msg := vCatch(func() { r = vCmd(cs, args...) })
		vAssert("lmpop-no-panic", !panicked)
		if panicked {
			vNote(msg)
			return
		}
		if count <= 0 {
			vAssert("lmpop-bad-count-error", vIsErr(r))
			return
		}
		which, lst := "a", src
		if len(src) == 0 {
			which, lst = "b", dst
		}
		if len(lst) == 0 {
			vAssert("lmpop-all-empty-nil", vIsNil(r))
			return
		}
		k := len(lst)
		if count < int64(k) {
			k = int(count)
		}
		var taken []string
		var rest []string
		if left {
			taken, rest = lst[:k], lst[k:]
		} else {
			for i := 0; i < k; i++ {
				taken = append(taken, lst[len(lst)-1-i])
			}
			rest = lst[:len(lst)-k]
		}
		a, ok := vArrayOf(r)
		vAssert("lmpop-shape", ok && len(a) == 2)
		if ok && len(a) == 2 {
			vAssert("lmpop-key", vIsBulk(a[0], which))
			vAssert("lmpop-elements", vArrayIs(a[1], taken))
		}
		vListIs(cs, "lmpop-rest", which, rest)
	}
}
