//go:build verif

package redisemu

// C08 / C16 — every command touches store memory only inside one guarded
// section (lock-set discipline, decided per command path by the engine's
// monitor); a violation is confirmed natively by running the command
// concurrently with writers of the same key under the Go race detector.

// VerifH_c08_l2: G7 over the command table.
func VerifH_c08_l2() {
	VerifSetup()
	cs := vNewClient()
	vCmd(cs, "SET", "k2", "s"+vStringN("k2v", 1))
	vCmd(cs, "RPUSH", "k3", "x1", "x2")
	vCmd(cs, "SADD", "k4", "m1", "m3")
	kind := vChoice("kind", 5)
	switch kind {
	case preString:
		vCmd(cs, "SET", "k", vStringN("kv", 1))
	case preList:
		vCmd(cs, "RPUSH", "k", "e1", vStringN("kv", 1))
	case preHash:
		vCmd(cs, "HSET", "k", "f1", vStringN("kv", 1), "f2", "7")
	case preSet:
		vCmd(cs, "SADD", "k", "m1", "m2")
	}
	if kind != preAbsent && vBool("ttl") {
		vCmd(cs, "EXPIRE", "k", "100000")
	}
	t := vL2Commands[vChoice("cmd", len(vL2Commands))]
	args := make([]string, len(t))
	for i, a := range t {
		switch a {
		case "$K":
			args[i] = "k"
		case "$S":
			args[i] = vStringN("s", 1)
		case "$I":
			if vL2TimeArg[t[0]] || (t[0] == "SET" && i > 2) || (t[0] == "GETEX" && i > 1) || (t[0] == "RESTORE" && i == 2) {
				args[i] = []string{"-1", "100"}[vChoice("t", 2)]
			} else {
				args[i] = []string{"0", "1", "-1", "2"}[vChoice("i", 4)]
			}
		default:
			args[i] = a
		}
	}
	unguarded, sections, detail, shared := vMonitoredCmd(cs, kind, args)
	if unguarded > 0 {
		vNote(detail)
	}
	vAssert("G7-no-store-access-outside-a-guarded-section", unguarded == 0)
	vAssert("G7-one-guarded-section-per-command", sections <= 1)
	vAssert("no-unguarded-write-to-shared-start-up-tables", shared == "")
}

// vMonitoredCmd runs one command of cs under the monitor.
func vMonitoredCmd(cs *clientState, kind int, args []string) (unguarded, sections int, detail, shared string) {
	vMonitorBegin(cs)
	panicked, _ := vCatch(func() { vCmd(cs, args...) })
	unguarded, sections, detail, shared, _ = vMonitorEnd()
	if panicked {
		return 0, 0, "", ""
	}
	vRaceWorkload(cs, kind, args)
	return
}
