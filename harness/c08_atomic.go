//go:build verif

package redisemu

// C08 / C16 — every command touches store memory only inside one guarded
// section (lock-set discipline, decided per command path by the engine's
// monitor); a violation is confirmed natively by running the command
// concurrently with writers of the same key under the Go race detector.

// VerifH_c08_l2: G7 over the command table.
func VerifH_c08_l2() {
	VerifSetup()
	cs := vNewClient()
	vCmd(cs, "SET", "k2", "s"+vStringN("k2v", 1))
	vCmd(cs, "RPUSH", "k3", "x1", "x2")
	vCmd(cs, "SADD", "k4", "m1", "m3")
	kind := vChoice("kind", 5)
	switch kind {
	case preString:
		vCmd(cs, "SET", "k", vStringN("kv", 1))
	case preList:
		vCmd(cs, "RPUSH", "k", "e1", vStringN("kv", 1))
	case preHash:
		vCmd(cs, "HSET", "k", "f1", vStringN("kv", 1), "f2", "7")
	case preSet:
		vCmd(cs, "SADD", "k", "m1", "m2")
	}
	if kind != preAbsent && vBool("ttl") {
		vCmd(cs, "EXPIRE", "k", "100000")
	}
	t := vL2Commands[vChoice("cmd", len(vL2Commands))]
	args := make([]string, len(t))
	for i, a := range t {
		switch a {
		case "$K":
			args[i] = "k"
		case "$F":
			args[i] = []string{"1.5", "inf", "nan"}[vChoice("f", 3)]
		case "$S":
			args[i] = vStringN("s", 1)
		case "$I":
			if vL2TimeArg[t[0]] || (t[0] == "SET" && i > 2) || (t[0] == "GETEX" && i > 1) || (t[0] == "RESTORE" && i == 2) {
				args[i] = []string{"-1", "100"}[vChoice("t", 2)]
			} else {
				args[i] = []string{"0", "1", "-1", "2"}[vChoice("i", 4)]
			}
		default:
			args[i] = a
		}
	}
	unguarded, sections, detail, shared := vMonitoredCmd(cs, kind, args)
	if unguarded > 0 {
		vNote(detail)
	}
	vAssert("G7-no-store-access-outside-a-guarded-section", unguarded == 0)
	vAssert("G7-one-guarded-section-per-command", sections <= 1)
	vAssert("no-unguarded-write-to-shared-start-up-tables", shared == "")
}

// vMonitoredCmd runs one command of cs under the monitor.
func vMonitoredCmd(cs *clientState, kind int, args []string) (unguarded, sections int, detail, shared string) {
	vMonitorBegin(cs)
	panicked, _ := vCatch(func() { vCmd(cs, args...) })
	acq := vLockAcquisitions()
	unguarded, sections, detail, shared, _ = vMonitorEnd()
	// (natively the monitor is absent; the number of times the command took
	// the database mutex is what a replay can confirm)
	vObserve("db-lock-acquisitions", acq)
	if panicked {
		return 0, 0, "", ""
	}
	vRaceWorkload(cs, kind, args)
	return
}

// ---------------------------------------------------------------------
// Direct check of linearizability for two clients: a command of connection
// A runs with one command of connection B placed at any boundary of A's
// critical sections (the entry of every lock-taking function: by G7 these
// are the only points at which B can interfere).  The replies and the final
// state must equal those of one of the two serial orders, which are computed
// by running the same two commands on two identical servers.

var vC08Property = [][]string{
	{"INCR", "$K"}, {"APPEND", "$K", "ab"}, {"LPUSH", "$K", "n1"}, {"LPOP", "$K"}, {"HINCRBY", "$K", "f2", "5"}, {"SADD", "$K", "m9"},
	{"MSET", "$K", "1", "k5", "2"}, {"MSETNX", "$K", "1", "k5", "2"}, {"MSETNX", "k5", "1", "$K", "2"}, {"RENAME", "$K", "k5"}, {"RENAME", "k2", "$K"},
	{"RENAMENX", "$K", "k5"}, {"COPY", "$K", "k5"}, {"COPY", "k2", "$K", "REPLACE"}, {"LMOVE", "$K", "k3", "LEFT", "RIGHT"}, {"LMOVE", "k3", "$K", "RIGHT", "LEFT"},
	{"RPOPLPUSH", "$K", "$K"}, {"SMOVE", "$K", "k4", "m2"}, {"SMOVE", "k4", "$K", "m3"}, {"SUNIONSTORE", "k5", "$K", "k4"}, {"SINTERSTORE", "$K", "$K", "k4"},
	{"SDIFFSTORE", "k5", "k4", "$K"}, {"BITOP", "OR", "k5", "$K", "k2"}, {"BITOP", "NOT", "$K", "k2"}, {"DEL", "$K", "k2"}, {"EXISTS", "$K", "k2", "$K"},
	{"GETSET", "$K", "n"}, {"GETDEL", "$K"}, {"SETNX", "$K", "n"}, {"SET", "$K", "n", "GET"}, {"SORT", "$K", "ALPHA", "STORE", "k5"}, {"LINSERT", "$K", "BEFORE", "e1", "n"},
	{"HSETNX", "$K", "f9", "n"}, {"LREM", "$K", "0", "e1"}, {"SETRANGE", "$K", "1", "zz"}, {"GETEX", "$K", "PERSIST"}, {"EXPIRE", "$K", "100", "NX"}, {"LMPOP", "2", "$K", "k3", "LEFT"},
	{"SINTERCARD", "2", "$K", "k4"}, {"MGET", "$K", "k2"}, {"TOUCH", "$K", "k5"}, {"TOUCH", "k5", "$K"}, {"UNLINK", "$K", "k5"}, {"DECRBY", "$K", "3"}, {"HDEL", "$K", "f1", "f2"}, {"SREM", "$K", "m1", "m2"}, {"LTRIM", "$K", "1", "-1"},
}

var vC08Interferers = [][]string{
	{"SET", "k", "7"}, {"DEL", "k"}, {"RPUSH", "k", "zz"}, {"SADD", "k", "m2", "zz"}, {"HSET", "k", "f2", "1"},
	{"SET", "k5", "zz"}, {"DEL", "k2", "k4"}, {"APPEND", "k", "1"}, {"LPOP", "k3"}, {"RENAME", "k", "k5"},
}

type vC08World struct {
	a, b *clientState
}

func vC08Build(kind int, ttl bool, kv string) vC08World {
	disp := vNewServer()
	w := vC08World{vNewClientOn(disp), vNewClientOn(disp)}
	vCmd(w.a, "SET", "k2", "s1")
	vCmd(w.a, "RPUSH", "k3", "x1", "x2")
	vCmd(w.a, "SADD", "k4", "m1", "m3")
	switch kind {
	case preString:
		vCmd(w.a, "SET", "k", kv)
	case preList:
		vCmd(w.a, "RPUSH", "k", "e1", kv)
	case preHash:
		vCmd(w.a, "HSET", "k", "f1", kv, "f2", "7")
	case preSet:
		vCmd(w.a, "SADD", "k", "m1", "m2")
	}
	if kind != preAbsent && ttl {
		vCmd(w.a, "EXPIRE", "k", "100000")
	}
	return w
}

type vC08Outcome struct {
	ra, rb respValue
	keys   [5]vKeySnap
}

func vC08Observe(w vC08World, ra, rb respValue) vC08Outcome {
	o := vC08Outcome{ra: ra, rb: rb}
	for i, k := range vL2Keys {
		o.keys[i] = vSnapKey(w.a, k)
	}
	return o
}

func vC08Same(x, y vC08Outcome) bool {
	same := vAnd(vRespEqAny(x.ra, y.ra), vRespEqAny(x.rb, y.rb))
	for i := range x.keys {
		same = vAnd(same, vSnapEq(x.keys[i], y.keys[i]))
	}
	return same
}

func vC08Interleave(table [][]string) {
	VerifSetup()
	vSetNow(vT0, 0)
	kind := vChoice("kind", 5)
	ttl := kind != preAbsent && vBool("ttl")
	kv := "4"
	if kind == preString && vBool("text") {
		kv = "ab"
	}
	t := table[vChoice("cmd", len(table))]
	// commands that draw random numbers have no single serial outcome to compare with
	vAssume(t[0] != "RANDOMKEY" && t[0] != "SRANDMEMBER" && t[0] != "HRANDFIELD")
	args := make([]string, len(t))
	for i, a := range t {
		switch a {
		case "$K":
			args[i] = "k"
		case "$F":
			args[i] = []string{"1.5", "inf", "nan"}[vChoice("f", 3)]
		case "$S":
			args[i] = "n"
		case "$I":
			args[i] = []string{"0", "1", "-1", "2"}[vChoice("i", 4)]
		default:
			args[i] = a
		}
	}
	intf := vC08Interferers[vChoice("interferer", len(vC08Interferers))]

	// the two serial orders
	w1 := vC08Build(kind, ttl, kv)
	ra1 := vCmd(w1.a, args...)
	rb1 := vCmd(w1.b, intf...)
	ab := vC08Observe(w1, ra1, rb1)
	w2 := vC08Build(kind, ttl, kv)
	rb2 := vCmd(w2.b, intf...)
	ra2 := vCmd(w2.a, args...)
	ba := vC08Observe(w2, ra2, rb2)

	// the interleaved run: B's command at one section boundary of A's
	w := vC08Build(kind, ttl, kv)
	var ra, rb respValue
	done := false
	points := 0
	vSetEnv(func(point string) bool {
		points++
		if done || !vBool("here") {
			return false
		}
		done = true
		rb = vCmd(w.b, intf...)
		return true
	})
	parked := vRunBlockingOn(w.a, func() { ra = vCmd(w.a, args...) })
	vAssert("non-blocking-command-returns", !parked)
	if parked {
		return
	}
	if !done {
		// B ran at no boundary: it runs afterwards (the serial order A;B)
		rb = vCmd(w.b, intf...)
	}
	got := vC08Observe(w, ra, rb)
	vAssert("outcome-equals-a-serial-order", vOr(vC08Same(got, ab), vC08Same(got, ba)))
	vReach("interferer-ran-at-a-section-boundary", done)
}

// VerifH_c08_interleave: the commands the property names.
func VerifH_c08_interleave() { vC08Interleave(vC08Property) }

// VerifH_c08_interleave_all: the whole command table (thorough tier).
func VerifH_c08_interleave_all() { vC08Interleave(vL2Commands) }
