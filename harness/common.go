//go:build verif

package redisemu

// Shared harness helpers: real dispatcher / client construction, reply
// inspection, abstract views of the store.

import (
	"context"
	iofs "io/fs"
	"sync"
	"time"

	"github.com/jimsnab/go-lane"
)

var (
	vSetupOnce sync.Once
	vCmds      redisCommands
	vInfo      *redisInfoTable
	vLane      lane.Lane
)

// VerifSetup runs the real start-up path once: the command grammar
// (redis7-fixed.txt) and the info table (redis7-info.txt) are parsed by the
// real RESP deserializer into the real tables.  Under gosym it is executed
// concretely before exploration starts.
func VerifSetup() {
	vSetupOnce.Do(func() {
		vLane = lane.NewNullLane(context.Background())
		rd := newRespDeserializerFromResource(vLane, cmdSpec)
		value, _, valid := rd.deserializeNext()
		if !valid {
			panic("invalid cmdSpec")
		}
		cmds := redisCommands{}
		if !cmds.respDeserialize(vLane, value) {
			panic("cannot deserialize command definitions")
		}
		ri := newRespDeserializerFromResource(vLane, cmdInfoSpec)
		value, _, valid = ri.deserializeNext()
		if !valid {
			panic("invalid cmdInfoSpec")
		}
		info := newRedisInfoTable()
		if !info.respDeserialize(vLane, value) {
			panic("cannot deserialize command info")
		}
		vCmds, vInfo = cmds, info
	})
}

// vNewServer builds a fresh data store set and dispatcher.
func vNewServer() *cmdDispatcher {
	dss := newDataStoreSet(vLane, "", nil)
	return newCmdDispatcher(6379, "127.0.0.1", vCmds, vInfo, dss)
}

// vNewClientOn opens a connection (clientState) on an existing server.
func vNewClientOn(disp *cmdDispatcher) *clientState {
	ts := &testClient{started: time.Now(), dss: disp.dss, addr: "1.2.3.4:50001", laddr: "127.0.0.1:6379"}
	ts.disp = disp
	ts.cs = newClientState(vLane, ts, disp)
	return ts.cs
}

// vNewClient = new server + one connection (RESP2, like a fresh socket).
func vNewClient() *clientState {
	return vNewClientOn(vNewServer())
}

// vCmd sends one command through the real dispatcher (the same entry the
// socket loop and ProcessCommand use).  Arguments are strings.
func vCmd(cs *clientState, args ...string) respValue {
	a := make(respArray, 0, len(args))
	for _, s := range args {
		a = append(a, respValue{data: respBulkString(s)})
	}
	return cs.dispatch(respValue{data: a})
}

func vIsErr(v respValue) bool {
	switch v.data.(type) {
	case respErrorString, respBlobError:
		return true
	}
	return false
}

func vIsNil(v respValue) bool {
	switch v.data.(type) {
	case nil, respNull:
		return true
	}
	return false
}

func vIsOK(v respValue) bool {
	s, ok := v.data.(respSimpleString)
	return ok && s == "OK"
}

func vIsInt(v respValue, n int64) bool {
	i, ok := v.data.(respInt)
	return ok && int64(i) == n
}

func vIntOf(v respValue) (int64, bool) {
	i, ok := v.data.(respInt)
	return int64(i), ok
}

func vIsBulk(v respValue, s string) bool {
	b, ok := v.data.(respBulkString)
	return ok && vStrEq(string(b), s)
}

func vBulkOf(v respValue) (string, bool) {
	b, ok := v.data.(respBulkString)
	return string(b), ok
}

func vArrayOf(v respValue) ([]respValue, bool) {
	a, ok := v.data.(respArray)
	return []respValue(a), ok
}

// vItoa renders a small non-negative concrete number.
func vItoa(n int) string {
	if n == 0 {
		return "0"
	}
	s := ""
	for n > 0 {
		s = string(rune('0'+n%10)) + s
		n /= 10
	}
	return s
}

// vChoiceBig picks one of n alternatives for n above 256.
func vChoiceBig(name string, n int) int {
	if n <= 256 {
		return vChoice(name, n)
	}
	hi := vChoice(name+".hi", (n+63)/64)
	lo := vChoice(name+".lo", 64)
	idx := hi*64 + lo
	vAssume(idx < n)
	return idx
}

// vDirEntry is the directory entry the engine's file-system model hands to
// filepath.WalkDir callbacks (natively the real file system is walked).
type vDirEntry struct{ name string }

func (d vDirEntry) Name() string                 { return d.name }
func (d vDirEntry) IsDir() bool                  { return false }
func (d vDirEntry) Type() iofs.FileMode          { return 0 }
func (d vDirEntry) Info() (iofs.FileInfo, error) { return nil, nil }

var _ iofs.DirEntry = vDirEntry{}
