//go:build verif

package redisemu

// C05 — set commands and set algebra behave as Redis 7 (t_set.c).  Member
// names come from a 3-name universe (their sipHash is computed by the real
// code); the membership vector of every operand is symbolic, operands may
// be missing, repeated or wrong-typed, and the STORE destination may be an
// operand.  The oracle is bit-vector set algebra.

var vMemberPool = []string{"m0", "m1", "m2"}

const (
	opMissing = iota
	opSet
	opWrongType
)

// vMkSet creates key k as a set with a symbolic membership mask (non-empty),
// leaves it missing, or makes it a string.  Returns (kind, mask).
func vMkSet(cs *clientState, k, name string) (int, int) {
	kind := vChoice(name+".kind", 3)
	mask := 0
	switch kind {
	case opSet:
		for i, m := range vMemberPool {
			if vBool(name + ".has") {
				vCmd(cs, "SADD", k, m)
				mask |= 1 << i
			}
		}
		if mask == 0 {
			kind = opMissing
		}
	case opWrongType:
		vCmd(cs, "SET", k, "x")
	}
	return kind, mask
}

func popcount3(m int) int { return m&1 + m>>1&1 + m>>2&1 }

// vSetReplyIs: reply is an array holding exactly the members of mask.
func vSetReplyIs(r respValue, mask int) bool {
	a, ok := vArrayOf(r)
	if !ok || len(a) != popcount3(mask) {
		return false
	}
	for i, m := range vMemberPool {
		found := false
		for _, e := range a {
			if vIsBulk(e, m) {
				found = true
			}
		}
		if found != (mask>>i&1 == 1) {
			return false
		}
	}
	return true
}

// vSetIs asserts key k is exactly the set mask (missing when empty).
func vSetIs(cs *clientState, label, k string, mask int) {
	vAssert(label+"-smembers", vSetReplyIs(vCmd(cs, "SMEMBERS", k), mask))
	vAssert(label+"-scard", vIsInt(vCmd(cs, "SCARD", k), int64(popcount3(mask))))
	ex := int64(1)
	typ := "set"
	if mask == 0 {
		ex = 0
		typ = "none"
	}
	vAssert(label+"-exists", vIsInt(vCmd(cs, "EXISTS", k), ex))
	vAssert(label+"-type", vTypeOf(cs, k) == typ)
	for i, m := range vMemberPool {
		vAssert(label+"-sismember", vIsInt(vCmd(cs, "SISMEMBER", k, m), int64(mask>>i&1)))
	}
}

// VerifH_c05_basic: SADD / SREM / SMISMEMBER / SMOVE.
func VerifH_c05_basic() {
	VerifSetup()
	cs := vNewClient()
	ka, ma := vMkSet(cs, "a", "a")
	i1, i2 := vChoice("m1", 3), vChoice("m2", 3)
	switch vChoice("cmd", 4) {
	case 0: // SADD two members
		r := vCmd(cs, "SADD", "a", vMemberPool[i1], vMemberPool[i2])
		if ka == opWrongType {
			vAssert("sadd-wrongtype", vIsErr(r))
			vAssert("sadd-wrongtype-inert", vTypeOf(cs, "a") == "string")
			return
		}
		nm := ma | 1<<i1 | 1<<i2
		vAssert("sadd-added", vIsInt(r, int64(popcount3(nm)-popcount3(ma))))
		vSetIs(cs, "sadd", "a", nm)
	case 1: // SREM two members
		r := vCmd(cs, "SREM", "a", vMemberPool[i1], vMemberPool[i2])
		if ka == opWrongType {
			vAssert("srem-wrongtype", vIsErr(r))
			return
		}
		nm := ma &^ (1<<i1 | 1<<i2)
		vAssert("srem-removed", vIsInt(r, int64(popcount3(ma)-popcount3(nm))))
		vSetIs(cs, "srem", "a", nm)
		vReach("srem-last-member-removes-key", ma != 0 && nm == 0)
	case 2: // SMISMEMBER
		r := vCmd(cs, "SMISMEMBER", "a", vMemberPool[i1], "nomember")
		if ka == opWrongType {
			vAssert("smismember-wrongtype", vIsErr(r))
			return
		}
		a, ok := vArrayOf(r)
		vAssert("smismember-shape", ok && len(a) == 2)
		if ok && len(a) == 2 {
			vAssert("smismember-0", vIsInt(a[0], int64(ma>>i1&1)))
			vAssert("smismember-1", vIsInt(a[1], 0))
		}
	case 3: // SMOVE a -> b (or a -> a)
		same := vBool("samekey")
		kb, mb := opMissing, 0
		dk := "b"
		if same {
			dk, kb, mb = "a", ka, ma
		} else {
			kb, mb = vMkSet(cs, "b", "b")
		}
		r := vCmd(cs, "SMOVE", "a", dk, vMemberPool[i1])
		if ka == opWrongType || (kb == opWrongType && ka == opSet && ma>>i1&1 == 1) {
			vAssert("smove-wrongtype", vIsErr(r))
			if ka == opSet {
				vSetIs(cs, "smove-wrongtype-src-inert", "a", ma)
			}
			return
		}
		if ma>>i1&1 == 0 {
			vAssert("smove-not-member-0", vIsInt(r, 0))
			if ka != opWrongType {
				vSetIs(cs, "smove-noop-src", "a", ma)
			}
			if !same && kb != opWrongType {
				vSetIs(cs, "smove-noop-dst", "b", mb)
			}
			return
		}
		vAssert("smove-1", vIsInt(r, 1))
		if same {
			vSetIs(cs, "smove-same", "a", ma)
		} else {
			vSetIs(cs, "smove-src", "a", ma&^(1<<i1))
			vSetIs(cs, "smove-dst", "b", mb|1<<i1)
			vReach("smove-last-member-removes-src", ma == 1<<i1)
		}
	}
}

// VerifH_c05_algebra: SINTER/SUNION/SDIFF and their STORE forms.
func VerifH_c05_algebra() {
	VerifSetup()
	cs := vNewClient()
	ka, ma := vMkSet(cs, "a", "a")
	kb, mb := vMkSet(cs, "b", "b")
	repeat := vBool("repeat-first") // second operand is the first key again
	k2, kk2, m2 := "b", kb, mb
	if repeat {
		k2, kk2, m2 = "a", ka, ma
	}
	nops := 2
	var kc, mc int
	if vBool("three") {
		kc, mc = vMkSet(cs, "c", "c")
		nops = 3
	}
	op := vChoice("op", 3) // 0 inter 1 union 2 diff
	var want int
	switch op {
	case 0:
		want = ma & m2
		if nops == 3 {
			want &= mc
		}
	case 1:
		want = ma | m2
		if nops == 3 {
			want |= mc
		}
	case 2:
		want = ma &^ m2
		if nops == 3 {
			want &^= mc
		}
	}
	anyWrong := ka == opWrongType || kk2 == opWrongType || (nops == 3 && kc == opWrongType)
	anyMissing := ka == opMissing || kk2 == opMissing || (nops == 3 && kc == opMissing)
	name := []string{"SINTER", "SUNION", "SDIFF"}[op]
	store := vBool("store")
	if !store {
		args := []string{name, "a", k2}
		if nops == 3 {
			args = append(args, "c")
		}
		r := vCmd(cs, args...)
		if anyWrong && op == 0 && anyMissing {
			// Redis versions differ on whether a missing operand short-cuts the
			// type check of the others for SINTER: either answer is accepted
			vAssert("inter-missing-wrongtype", vIsErr(r) || vSetReplyIs(r, 0))
		} else if anyWrong {
			vAssert("algebra-wrongtype", vIsErr(r))
		} else {
			vAssert("algebra-result", vSetReplyIs(r, want))
		}
		// operands are never modified
		if ka != opWrongType {
			vSetIs(cs, "algebra-operand-a", "a", ma)
		}
		if kb != opWrongType {
			vSetIs(cs, "algebra-operand-b", "b", mb)
		}
		return
	}
	dsel := vChoice("dest", 4) // 0 fresh, 1 = a, 2 = b, 3 existing key of another type
	dk := "d"
	switch dsel {
	case 1:
		dk = "a"
	case 2:
		dk = "b"
	case 3:
		vCmd(cs, "RPUSH", "d", "x")
	}
	args := []string{name + "STORE", dk, "a", k2}
	if nops == 3 {
		args = append(args, "c")
	}
	r := vCmd(cs, args...)
	if anyWrong && op == 0 && anyMissing {
		return // see inter-missing-wrongtype: outside the claim for the STORE form
	}
	if anyWrong {
		vAssert("store-wrongtype", vIsErr(r))
		// nothing changes
		if ka == opSet || ka == opMissing {
			vSetIs(cs, "store-wrongtype-a-inert", "a", ma)
		}
		if kb == opSet || kb == opMissing {
			vSetIs(cs, "store-wrongtype-b-inert", "b", mb)
		}
		return
	}
	vAssert("store-count", vIsInt(r, int64(popcount3(want))))
	vSetIs(cs, "store-dest", dk, want)
	if dk != "a" {
		vSetIs(cs, "store-operand-a", "a", ma)
	}
	if dk != "b" && kb != opWrongType {
		vSetIs(cs, "store-operand-b", "b", mb)
	}
	// the stored result is a set of its own: it shares no storage with an
	// operand, and writing to it afterwards leaves the operands alone
	if want != 0 {
		for _, opk := range []string{"a", "b"} {
			if opk == dk {
				continue
			}
			dsk, _ := cs.ds.getStoreKey(dk)
			osk, oex := cs.ds.getStoreKey(opk)
			if oex && dsk != nil && osk.getSet() != nil && dsk.getSet() != nil {
				dd, od := dsk.getSet(), osk.getSet()
				vAssert("store-result-not-aliased-with-operand", dd != od && &dd.buckets[0] != &od.buckets[0])
			}
		}
		free := -1
		for i := range vMemberPool {
			if want>>i&1 == 0 {
				free = i
			}
		}
		if free >= 0 {
			vCmd(cs, "SADD", dk, vMemberPool[free])
			if dk != "a" && ka != opWrongType {
				vSetIs(cs, "store-then-write-dest-operand-a", "a", ma)
			}
			if dk != "b" && kb != opWrongType {
				vSetIs(cs, "store-then-write-dest-operand-b", "b", mb)
			}
		}
	}
	vReach("store-empty-result-deletes-dest", want == 0 && dsel == 1 && ma != 0)
	vReach("store-dest-is-operand", dsel == 2 && want != mb)
}

// VerifH_c05_intercard: SINTERCARD numkeys key... [LIMIT l] for all int64 l.
func VerifH_c05_intercard() {
	VerifSetup()
	cs := vNewClient()
	ka, ma := vMkSet(cs, "a", "a")
	kb, mb := vMkSet(cs, "b", "b")
	args := []string{"SINTERCARD", "2", "a", "b"}
	hasLimit := vBool("haslimit")
	limit := int64(0)
	if hasLimit {
		s := vDecimal("limit")
		limit = vDecimalOf(s)
		args = append(args, "LIMIT", s)
	}
	r := vCmd(cs, args...)
	if hasLimit && limit < 0 {
		vAssert("sintercard-negative-limit-error", vIsErr(r))
		return
	}
	if ka == opWrongType || kb == opWrongType {
		if ka != opMissing && kb != opMissing {
			vAssert("sintercard-wrongtype", vIsErr(r))
		}
		return
	}
	want := int64(popcount3(ma & mb))
	if limit > 0 && limit < want {
		want = limit
	}
	vAssert("sintercard-count", vIsInt(r, want))
	// single key: cardinality of the set itself
	r1 := vCmd(cs, "SINTERCARD", "1", "a")
	vAssert("sintercard-single", vIsInt(r1, int64(popcount3(ma))))
	vReach("sintercard-limited", hasLimit && limit == 1 && popcount3(ma&mb) == 2)
}

// VerifH_c05_srandmember: result shape for counts -3..3.
func VerifH_c05_srandmember() {
	VerifSetup()
	cs := vNewClient()
	ka, ma := vMkSet(cs, "a", "a")
	if ka == opWrongType {
		return
	}
	n := popcount3(ma)
	hasCount := vBool("hascount")
	args := []string{"SRANDMEMBER", "a"}
	var count int64
	if hasCount {
		s := vDecimal("count")
		count = vDecimalOf(s)
		vAssume(count >= -3 && count <= 3)
		args = append(args, s)
	}
	r := vCmd(cs, args...)
	isMember := func(v respValue) bool {
		ok := false
		for i, m := range vMemberPool {
			if ma>>i&1 == 1 && vIsBulk(v, m) {
				ok = true
			}
		}
		return ok
	}
	if !hasCount {
		if n == 0 {
			vAssert("srandmember-missing-nil", vIsNil(r))
		} else {
			vAssert("srandmember-one-existing", isMember(r))
		}
		return
	}
	a, ok := vArrayOf(r)
	vAssert("srandmember-array", ok)
	if !ok {
		return
	}
	want := 0
	if n > 0 {
		if count >= 0 {
			want = int(count)
			if want > n {
				want = n
			}
		} else {
			want = int(-count)
		}
	}
	vAssert("srandmember-count", len(a) == want)
	for _, e := range a {
		vAssert("srandmember-existing", isMember(e))
	}
	if count > 0 && len(a) == want {
		distinct := true
		for j := 0; j < len(a); j++ {
			for l := j + 1; l < len(a); l++ {
				for _, m := range vMemberPool {
					if vIsBulk(a[j], m) && vIsBulk(a[l], m) {
						distinct = false
					}
				}
			}
		}
		vAssert("srandmember-distinct", distinct)
	}
}

// VerifH_c05_srandmember_extreme: absurd counts are refused or clamped.
func VerifH_c05_srandmember_extreme() {
	VerifSetup()
	cs := vNewClient()
	vCmd(cs, "SADD", "a", "m0")
	s := vDecimal("count")
	count := vDecimalOf(s)
	vAssume(count > 4294967296 || count == -9223372036854775808)
	var r respValue
	panicked, msg := vCatch(func() { r = vCmd(cs, "SRANDMEMBER", "a", s) })
	vAssert("srandmember-extreme-no-panic", !panicked)
	if panicked {
		vNote(msg)
		return
	}
	if count < 0 {
		vAssert("srandmember-out-of-range-error", vIsErr(r))
	} else {
		a, ok := vArrayOf(r)
		vAssert("srandmember-clamped", ok && len(a) == 1)
	}
}
