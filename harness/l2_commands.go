//go:build verif

package redisemu

// L2: one command from a table of argv templates covering the data
// commands of the emulator, applied through the real dispatcher to a target
// key in each type state, with symbolic values and unconstrained int64
// arguments.  Monitors (selected per property):
//   G2  an error reply leaves every key, value and expiry unchanged   (C06)
//   G3  no empty list/hash/set exists afterwards                      (C06)
//   G4  every key has exactly one type and a payload of that type     (C06)
//   G5  abstract state changed  =>  the store is marked dirty          (C19)
//   G8  no panic                                                       (C13)

import (
	"math/big"
	"time"
)

type vKeySnap struct {
	exists bool
	flags  bitflags
	str    []byte
	list   [][]byte
	names  []string // hash fields / set members in table order
	vals   []string // hash values
	exp    time.Time
	id     uint64
}

func vSnapKey(cs *clientState, k string) vKeySnap {
	var s vKeySnap
	sk, ok := cs.ds.getStoreKey(k)
	if !ok || sk.isExpiredUnlocked() {
		return s
	}
	s.exists = true
	s.flags = sk.flags
	s.exp = sk.expiresAt
	s.id = sk.id
	switch p := sk.payload.(type) {
	case []byte:
		s.str = append([]byte{}, p...)
	case *storeList:
		for it := p.head; it != nil; it = it.next {
			s.list = append(s.list, append([]byte{}, it.element...))
		}
	case *redisDict:
		for it := p.createIterator(); it.next(); {
			s.names = append(s.names, it.key)
			if v, ok := it.value.(string); ok {
				s.vals = append(s.vals, v)
			} else {
				s.vals = append(s.vals, "")
			}
		}
	}
	return s
}

func vSnapEq(a, b vKeySnap) bool {
	if a.exists != b.exists {
		return false
	}
	if !a.exists {
		return true
	}
	if a.flags != b.flags || !a.exp.Equal(b.exp) || len(a.list) != len(b.list) || len(a.names) != len(b.names) {
		return false
	}
	same := vBytesEq(a.str, b.str)
	for i := range a.list {
		same = vAnd(same, vBytesEq(a.list[i], b.list[i]))
	}
	// hash / set content compared by name (table order may legitimately differ)
	for i, n := range a.names {
		found := false
		for j, m := range b.names {
			if n == m {
				found = vOr(found, vStrEq(a.vals[i], b.vals[j]))
			}
		}
		same = vAnd(same, found)
	}
	return same
}

// vKeyspaceOK checks G3/G4 and the dictionary placement invariant on the
// whole selected database.
func vKeyspaceOK(cs *clientState) (oneType, nonEmpty, placed bool) {
	oneType, nonEmpty, placed = true, true, true
	d := cs.ds.data
	n := 0
	for i, item := range d.buckets {
		if item == nil {
			continue
		}
		n++
		if d.hashToIndex(item.fullHash, uint32(len(d.buckets))) != uint32(i) || item.fullHash != calcSipHash(item.key) {
			placed = false
		}
		sk, ok := item.value.(*storeKey)
		if !ok || sk == nil {
			oneType = false
			continue
		}
		switch sk.flags {
		case FLAG_KEY_TYPE_STRING:
			if _, ok := sk.payload.([]byte); !ok {
				oneType = false
			}
		case FLAG_KEY_TYPE_LIST:
			l, ok := sk.payload.(*storeList)
			if !ok || l == nil {
				oneType = false
			} else if l.count == 0 || l.head == nil {
				nonEmpty = false
			}
		case FLAG_KEY_TYPE_HASH_TABLE, FLAG_KEY_TYPE_SET:
			t, ok := sk.payload.(*redisDict)
			if !ok || t == nil {
				oneType = false
			} else if t.count == 0 {
				nonEmpty = false
			}
		default:
			oneType = false
		}
	}
	if n != d.count {
		placed = false
	}
	return
}

// the command table: $K target key, $S symbolic byte string, $I symbolic
// int64, k2 = a string key, k3 = a list key, k4 = a set key, k5 = missing.
var vL2Commands = [][]string{
	{"APPEND", "$K", "$S"}, {"BITCOUNT", "$K"}, {"BITCOUNT", "$K", "$I", "$I"}, {"BITCOUNT", "$K", "$I", "$I", "BIT"},
	{"BITFIELD", "$K", "GET", "u8", "0"}, {"BITFIELD", "$K", "SET", "u8", "0", "$I"}, {"BITFIELD", "$K", "OVERFLOW", "FAIL", "INCRBY", "i8", "0", "$I"},
	{"BITFIELD_RO", "$K", "GET", "u8", "0"}, {"BITOP", "AND", "$K", "k2", "k2"}, {"BITOP", "OR", "k5", "$K", "k2"}, {"BITOP", "NOT", "k5", "$K"},
	{"BITPOS", "$K", "1"}, {"BITPOS", "$K", "$I", "$I", "$I"},
	{"COPY", "$K", "k5"}, {"COPY", "$K", "k2"}, {"COPY", "$K", "k2", "REPLACE"}, {"COPY", "k2", "$K"}, {"COPY", "k3", "$K", "REPLACE"},
	{"DECR", "$K"}, {"DECRBY", "$K", "$I"}, {"DEL", "$K"}, {"DEL", "$K", "k5", "$K"}, {"DUMP", "$K"}, {"EXISTS", "$K", "$K"},
	{"EXPIRE", "$K", "$I"}, {"EXPIRE", "$K", "$I", "NX"}, {"EXPIREAT", "$K", "$I"}, {"EXPIRETIME", "$K"},
	{"GET", "$K"}, {"GETBIT", "$K", "$I"}, {"GETDEL", "$K"}, {"GETEX", "$K"}, {"GETEX", "$K", "PERSIST"}, {"GETEX", "$K", "EX", "$I"},
	{"GETRANGE", "$K", "$I", "$I"}, {"GETSET", "$K", "$S"}, {"INCR", "$K"}, {"INCRBY", "$K", "$I"}, {"INCRBYFLOAT", "$K", "1.5"},
	{"HDEL", "$K", "f1"}, {"HDEL", "$K", "f1", "f2"}, {"HEXISTS", "$K", "f1"}, {"HGET", "$K", "f1"}, {"HGETALL", "$K"},
	{"HINCRBY", "$K", "f1", "$I"}, {"HINCRBY", "$K", "n1", "$I"}, {"HINCRBYFLOAT", "$K", "f1", "1.5"}, {"HKEYS", "$K"}, {"HLEN", "$K"},
	{"HMGET", "$K", "f1", "zz"}, {"HMSET", "$K", "f1", "$S"}, {"HRANDFIELD", "$K"}, {"HRANDFIELD", "$K", "1", "WITHVALUES"},
	{"HSCAN", "$K", "0"}, {"HSET", "$K", "f1", "$S"}, {"HSETNX", "$K", "f1", "$S"}, {"HSTRLEN", "$K", "f1"}, {"HVALS", "$K"},
	{"LCS", "$K", "k2"}, {"LCS", "k2", "$K", "LEN"}, {"LINDEX", "$K", "$I"}, {"LINSERT", "$K", "BEFORE", "e1", "$S"}, {"LLEN", "$K"},
	{"LMOVE", "$K", "k3", "LEFT", "RIGHT"}, {"LMOVE", "k3", "$K", "RIGHT", "LEFT"}, {"LMOVE", "$K", "$K", "LEFT", "RIGHT"}, {"LMPOP", "1", "$K", "LEFT"},
	{"LPUSH", "$K", "$S"}, {"LPUSHX", "$K", "$S"}, {"LPOP", "$K"}, {"LPOP", "$K", "$I"}, {"LPOS", "$K", "$S"}, {"LRANGE", "$K", "$I", "$I"},
	{"LREM", "$K", "$I", "$S"}, {"LSET", "$K", "$I", "$S"}, {"LTRIM", "$K", "$I", "$I"},
	{"MGET", "$K", "k2"}, {"MSET", "$K", "$S", "k5", "x"}, {"MSETNX", "$K", "$S", "k5", "x"}, {"KEYS", "*"}, {"KEYS", "k?"},
	{"PERSIST", "$K"}, {"PEXPIRE", "$K", "$I"}, {"PEXPIREAT", "$K", "$I"}, {"PEXPIRETIME", "$K"}, {"PSETEX", "$K", "$I", "$S"}, {"PTTL", "$K"},
	{"RANDOMKEY"}, {"RENAME", "$K", "k5"}, {"RENAME", "$K", "k2"}, {"RENAME", "k2", "$K"}, {"RENAME", "$K", "$K"},
	{"RENAMENX", "$K", "k5"}, {"RENAMENX", "$K", "k2"}, {"RENAMENX", "k3", "$K"},
	{"RPUSH", "$K", "$S"}, {"RPUSHX", "$K", "$S"}, {"RPOP", "$K"}, {"RPOP", "$K", "$I"}, {"RPOPLPUSH", "$K", "k3"}, {"RPOPLPUSH", "k3", "$K"},
	{"SADD", "$K", "m1", "m9"}, {"SCARD", "$K"}, {"SCAN", "0"}, {"SCAN", "0", "TYPE", "list"}, {"SDIFF", "$K", "k4"}, {"SDIFF", "k4", "$K"},
	{"SDIFFSTORE", "$K", "k4", "k4"}, {"SDIFFSTORE", "k5", "$K", "k4"}, {"SINTER", "$K", "k4"}, {"SINTERCARD", "2", "$K", "k4"},
	{"SINTERSTORE", "$K", "k4", "k4"}, {"SINTERSTORE", "k5", "k4", "$K"}, {"SISMEMBER", "$K", "m1"}, {"SMEMBERS", "$K"}, {"SMISMEMBER", "$K", "m1"},
	{"SMOVE", "$K", "k4", "m1"}, {"SMOVE", "k4", "$K", "m1"}, {"SORT", "$K"}, {"SORT", "$K", "ALPHA", "DESC", "LIMIT", "$I", "$I"}, {"SORT", "$K", "ALPHA", "STORE", "k5"},
	{"SRANDMEMBER", "$K"}, {"SRANDMEMBER", "$K", "2"}, {"SREM", "$K", "m1"}, {"SREM", "$K", "m1", "m2"}, {"STRLEN", "$K"}, {"SUBSTR", "$K", "$I", "$I"},
	{"SSCAN", "$K", "0"}, {"SUNION", "$K", "k4"}, {"SUNIONSTORE", "$K", "k4", "k4"}, {"SUNIONSTORE", "k5", "$K", "k4"},
	{"TOUCH", "$K"}, {"TTL", "$K"}, {"TYPE", "$K"}, {"UNLINK", "$K"},
	{"SET", "$K", "$S"}, {"SET", "$K", "$S", "NX"}, {"SET", "$K", "$S", "XX", "GET"}, {"SET", "$K", "$S", "KEEPTTL"}, {"SET", "$K", "$S", "EX", "$I"}, {"SET", "$K", "$S", "PXAT", "$I"},
	{"SETBIT", "$K", "$I", "1"}, {"SETEX", "$K", "$I", "$S"}, {"SETNX", "$K", "$S"}, {"SETRANGE", "$K", "$I", "$S"},
	{"RESTORE", "$K", "0", "$S"}, {"RESTORE", "$K", "$I", "$S", "REPLACE"},
	// every count / cursor / offset argument as an arbitrary 64-bit number
	{"SCAN", "$I"}, {"SCAN", "0", "COUNT", "$I"}, {"SCAN", "$I", "MATCH", "k*", "COUNT", "$I"},
	{"HSCAN", "$K", "$I"}, {"HSCAN", "$K", "0", "COUNT", "$I"}, {"SSCAN", "$K", "$I"}, {"SSCAN", "$K", "0", "COUNT", "$I"},
	{"SRANDMEMBER", "$K", "$I"}, {"HRANDFIELD", "$K", "$I"}, {"HRANDFIELD", "$K", "$I", "WITHVALUES"},
	{"LMPOP", "$I", "$K", "LEFT"}, {"LMPOP", "1", "$K", "RIGHT", "COUNT", "$I"},
	{"LPOS", "$K", "e1", "RANK", "$I"}, {"LPOS", "$K", "e1", "COUNT", "$I"}, {"LPOS", "$K", "e1", "MAXLEN", "$I"},
	{"SINTERCARD", "$I", "$K", "k4"}, {"SINTERCARD", "2", "$K", "k4", "LIMIT", "$I"},
	{"BITFIELD", "$K", "GET", "u8", "$I"}, {"BITFIELD", "$K", "GET", "i64", "$I"}, {"BITFIELD", "$K", "INCRBY", "u63", "$I", "$I"},
	{"BITFIELD_RO", "$K", "GET", "i5", "$I"}, {"BITPOS", "$K", "0", "$I"}, {"BITPOS", "$K", "1", "$I", "$I", "BIT"},
	{"TOUCH", "$K", "k2", "k5"}, {"UNLINK", "$K", "k2"}, {"UNLINK", "k5", "$K"}, {"SMISMEMBER", "$K", "m1", "zz"}, {"HMGET", "$K", "f1", "f2"},
	{"INCRBYFLOAT", "$K", "$F"}, {"HINCRBYFLOAT", "$K", "f1", "$F"}, {"HINCRBYFLOAT", "$K", "f2", "$F"}, {"HINCRBYFLOAT", "$K", "n1", "$F"},
	{"LINSERT", "$K", "AFTER", "$S", "$S"}, {"SORT", "$K", "LIMIT", "$I", "$I"}, {"SORT", "$K", "LIMIT", "$I", "$I", "ALPHA", "STORE", "k5"},
}

// commands that legitimately loop or allocate by |count|: the count is
// either small or in the region where Redis refuses it (|n| > LONG_MAX/2)
var vL2LoopInt = map[string]bool{"SRANDMEMBER": true, "HRANDFIELD": true}

// growth bound of the harness: commands that legitimately allocate by an
// integer argument get that argument bounded (stated as outside the claim)
var vL2BoundedInt = map[string]bool{"SETBIT": true, "SETRANGE": true, "LPOP": false, "RPOP": false}

var vL2TimeArg = map[string]bool{"EXPIRE": true, "EXPIREAT": true, "PEXPIRE": true, "PEXPIREAT": true, "SETEX": true, "PSETEX": true}

var vL2TimeValues = []string{"-9223372036854775808", "-1", "0", "1", "100", "4102444800", "9223372036854775807"}

var vL2Keys = []string{"k", "k2", "k3", "k4", "k5"}

// floating-point arguments: ordinary, extreme and non-finite values
var vL2Floats = []string{"1.5", "-2", "inf", "-inf", "nan", "1e308", "-1e308", "1e-320", "0x1p3", "1e400", "", "1.5x"}

const (
	monG2 = 1 << iota
	monG34
	monG5
	monG8
	monG9 // every change of a key stamps it with a version never used before
	monG7 // store memory only touched inside one guarded section (engine monitor)
)

// vL2 runs one template on one key state with the given monitors.
func vL2(mon int) {
	VerifSetup()
	cs := vNewClient()
	// fixed neighbours
	vCmd(cs, "SET", "k2", "s"+vStringN("k2v", 1))
	vCmd(cs, "RPUSH", "k3", "x1", "x2")
	vCmd(cs, "SADD", "k4", "m1", "m3")
	// the target key
	// for the keyspace monitors the target also comes as a one-element list,
	// hash and set: whatever removes that element must remove the key
	nk := 5
	if mon&monG34 != 0 {
		nk = 8
	}
	kind := vChoice("kind", nk)
	switch kind {
	case preString:
		vCmd(cs, "SET", "k", vStringN("kv", 1))
	case preList:
		vCmd(cs, "RPUSH", "k", "e1", vStringN("kv", 1))
	case preHash:
		vCmd(cs, "HSET", "k", "f1", vStringN("kv", 1), "f2", "7")
	case preSet:
		vCmd(cs, "SADD", "k", "m1", "m2")
	case 5:
		vCmd(cs, "RPUSH", "k", "e1")
	case 6:
		vCmd(cs, "HSET", "k", "f1", "7")
	case 7:
		vCmd(cs, "SADD", "k", "m1")
	}
	if kind != preAbsent && vBool("ttl") {
		vCmd(cs, "EXPIRE", "k", "100000")
	}
	t := vL2Commands[vChoice("cmd", len(vL2Commands))]
	args := make([]string, len(t))
	for i, a := range t {
		switch a {
		case "$K":
			args[i] = "k"
		case "$S":
			args[i] = vStringN("s", 1)
		case "$F":
			args[i] = vL2Floats[vChoice("f", len(vL2Floats))]
		case "$I":
			if vL2TimeArg[t[0]] || (t[0] == "SET" && i > 2) || (t[0] == "GETEX" && i > 1) || (t[0] == "RESTORE" && i == 2) {
				// time arithmetic on a fully symbolic integer is the subject of
				// C07; here the argument comes from a table of boundary values
				args[i] = vL2TimeValues[vChoice("t", len(vL2TimeValues))]
				break
			}
			d := vDecimal("i")
			if vL2BoundedInt[t[0]] && i == 2 {
				n := vDecimalOf(d)
				vAssume(n < 64 || n >= 4294967296)
			}
			if vL2LoopInt[t[0]] {
				n := vDecimalOf(d)
				vAssume((n >= -3 && n <= 3) || n > 4611686018427387903 || n < -4611686018427387903)
			}
			if t[0] == "BITFIELD" && i == 4 {
				// a bit offset the command accepts makes the string grow to it:
				// growth is bounded like SETBIT's
				n := vDecimalOf(d)
				vAssume(n < 64 || n >= 4294967296)
			}
			args[i] = d
		default:
			args[i] = a
		}
	}
	needSnap := mon&(monG2|monG5|monG9) != 0
	versionBefore := cs.ds.dataObjectNumber
	var before [5]vKeySnap
	if needSnap {
		for i, k := range vL2Keys {
			before[i] = vSnapKey(cs, k)
		}
	}
	cs.ds.data.dirty = false
	var r respValue
	panicked, msg := vCatch(func() { r = vCmd(cs, args...) })
	if mon&monG8 != 0 {
		vAssert("G8-no-panic", !panicked)
		if mon == monG8 && !panicked {
			vAssert("G8-connection-still-served", vIsOK(vCmd(cs, "SET", "after", "1")))
		}
	}
	if panicked {
		vNote(msg)
		return
	}
	var after [5]vKeySnap
	unchanged := true
	if needSnap {
		for i, k := range vL2Keys {
			after[i] = vSnapKey(cs, k)
			unchanged = vAnd(unchanged, vSnapEq(before[i], after[i]))
		}
	}
	if mon&monG9 != 0 {
		// WATCH compares version stamps: it is sound over sequences of commands
		// only if a key whose content, expiry or identity changed carries a
		// stamp that no key has carried before (so that changing it back, or
		// moving it away and back, cannot restore a watched stamp)
		for i := range vL2Keys {
			if !after[i].exists {
				continue
			}
			same := vAnd(vSnapEq(before[i], after[i]), before[i].id == after[i].id)
			vAssert("G9-changed-key-carries-a-fresh-version", vOr(same, after[i].id > versionBefore))
		}
	}
	if mon&monG2 != 0 && vIsErr(r) {
		vAssert("G2-error-reply-leaves-state-unchanged", unchanged)
	}
	if mon&monG34 != 0 {
		oneType, nonEmpty, placed := vKeyspaceOK(cs)
		vAssert("G4-one-type-per-key", oneType)
		vAssert("G3-no-empty-collection", nonEmpty)
		vAssert("dict-placement-invariant", placed)
	}
	if mon&monG5 != 0 {
		vAssert("G5-change-marks-store-dirty", vOr(unchanged, cs.ds.data.dirty))
	}
}

func VerifH_c06_l2() { vL2(monG2 | monG34 | monG8) }

// VerifH_c13_l2: no command template, on any key type, with any 64-bit
// number in its integer arguments, panics or allocates by a client number
// (G8), and a second command on the same connection is answered afterwards.
func VerifH_c13_l2() { vL2(monG8) }

// VerifH_c10_l2_fresh: the version-stamp invariant WATCH relies on, over
// the command table (one inductive step from every key type).
func VerifH_c10_l2_fresh() { vL2(monG9) }

// VerifH_c13_restore: RESTORE with an arbitrary payload of 10..16 bytes
// (the solver has to produce the checksum): never a panic, and whatever key
// it creates is a well-formed key of one type that every reader can handle.
func VerifH_c13_restore() {
	VerifSetup()
	cs := vNewClient()
	l := []int{10, 13, 14, 15, 16}[vChoice("len", 5)]
	p := vBytesN("p", l)
	replace := vBool("replace")
	if vBool("exists") {
		vCmd(cs, "SET", "k", "old")
	}
	args := []string{"RESTORE", "k", "0", string(p)}
	if replace {
		args = append(args, "REPLACE")
	}
	var r respValue
	panicked, msg := vCatch(func() { r = vCmd(cs, args...) })
	vAssert("restore-no-panic", !panicked)
	if panicked {
		vNote(msg)
		return
	}
	vReach("restore-accepts-some-payload", vIsOK(r))
	// every reader copes with what is there now
	readers := [][]string{{"TYPE", "k"}, {"GET", "k"}, {"STRLEN", "k"}, {"LRANGE", "k", "0", "-1"}, {"LLEN", "k"}, {"HGETALL", "k"}, {"HLEN", "k"},
		{"SMEMBERS", "k"}, {"SCARD", "k"}, {"DUMP", "k"}, {"COPY", "k", "k9"}, {"APPEND", "k", "x"}, {"RPUSH", "k", "x"}, {"SADD", "k", "x"}, {"HSET", "k", "f", "v"},
		{"SORT", "k", "ALPHA"}, {"RENAME", "k", "k8"}, {"DEL", "k8"}}
	for _, rd := range readers {
		p2, m2 := vCatch(func() { vCmd(cs, rd...) })
		vAssert("restored-key-readable-without-panic", !p2)
		if p2 {
			vNote(rd[0] + ": " + m2)
			return
		}
	}
	oneType, nonEmpty, placed := vKeyspaceOK(cs)
	vAssert("restore-one-type-per-key", oneType)
	vAssert("restore-no-empty-collection", nonEmpty)
	vAssert("restore-dict-placement", placed)
}

// VerifH_c13_dump_restore: DUMP of a key of any type followed by RESTORE of
// that payload under another name: either refused with an error, or the new
// key has the same type and value; nothing panics afterwards.
func VerifH_c13_dump_restore() {
	VerifSetup()
	cs := vNewClient()
	kind := 1 + vChoice("kind", 4)
	switch kind {
	case preString:
		vCmd(cs, "SET", "k", vString("v", 2))
	case preList:
		vCmd(cs, "RPUSH", "k", "e1", vStringN("v", 1))
	case preHash:
		vCmd(cs, "HSET", "k", "f1", vStringN("v", 1))
	case preSet:
		vCmd(cs, "SADD", "k", "m1", "m2")
	}
	d := vCmd(cs, "DUMP", "k")
	payload, ok := vBulkOf(d)
	vAssert("dump-returns-bulk", ok)
	if !ok {
		return
	}
	var r respValue
	panicked, msg := vCatch(func() { r = vCmd(cs, "RESTORE", "k2", "0", payload) })
	vAssert("dump-restore-no-panic", !panicked)
	if panicked {
		vNote(msg)
		return
	}
	if vIsErr(r) {
		vAssert("refused-restore-creates-nothing", vIsInt(vCmd(cs, "EXISTS", "k2"), 0))
		return
	}
	vAssert("restored-copy-equals-original", vSnapEq(vSnapKey(cs, "k"), vSnapKey(cs, "k2")))
	oneType, nonEmpty, placed := vKeyspaceOK(cs)
	vAssert("dump-restore-keyspace-ok", oneType && nonEmpty && placed)
}

// VerifH_c13_resp3_args: commands whose arguments are not bulk strings but
// other RESP2/RESP3 values (integers, nulls, booleans, doubles, big numbers,
// simple/verbatim strings, errors, nested arrays, maps, sets) in any one or
// two positions, including the command name: the dispatcher answers (an
// error or a result) and never panics, and the connection keeps working.
func VerifH_c13_resp3_args() {
	VerifSetup()
	cs := vNewClient()
	vCmd(cs, "RPUSH", "l", "a", "b")
	vCmd(cs, "HSET", "h", "f", "1")
	templates := [][]string{
		{"SET", "k", "v", "EX", "100"}, {"GET", "k"}, {"LPUSH", "l", "x", "y"}, {"LRANGE", "l", "0", "-1"}, {"HSET", "h", "f", "v"},
		{"HINCRBY", "h", "f", "2"}, {"EXPIRE", "k", "100", "NX"}, {"SETRANGE", "k", "1", "zz"}, {"BITFIELD", "k", "GET", "u8", "0"},
		{"CLIENT", "SETNAME", "n"}, {"SADD", "s", "m"}, {"SINTERCARD", "1", "s", "LIMIT", "1"}, {"LMPOP", "1", "l", "LEFT", "COUNT", "1"},
		{"MSET", "a", "1", "b", "2"}, {"DEL", "k", "l"}, {"SORT", "l", "ALPHA", "LIMIT", "0", "1"}, {"SCAN", "0", "COUNT", "5"},
		{"HELLO", "3"}, {"SELECT", "1"}, {"COPY", "k", "k2", "DB", "1"}, {"RESTORE", "k9", "0", "xx"}, {"PING", "hi"}, {"ECHO", "hi"},
		{"COMMAND", "GETKEYS", "SET", "a", "b"}, {"OBJECT", "ENCODING", "k"}, {"WATCH", "k"}, {"LPOS", "l", "a", "RANK", "1"},
	}
	t := templates[vChoice("tpl", len(templates))]
	args := make(respArray, len(t))
	for i, s := range t {
		args[i] = respValue{data: respBulkString(s)}
	}
	mk := func(name string) respValue {
		switch vChoice(name, 12) {
		case 0:
			// (a symbolic number would become a symbolic key name, whose hash
			// is out of the solver's reach: boundary values instead)
			return respValue{data: respInt([]int64{0, 1, -1, 9223372036854775807, -9223372036854775808}[vChoice(name+".i", 5)])}
		case 1:
			return respValue{data: nil}
		case 2:
			return respValue{data: respNull{}}
		case 3:
			return respValue{data: respBool(vBool(name + ".b"))}
		case 4:
			return respValue{data: respDouble(1.5)}
		case 5:
			return respValue{data: respBigNumber{bn: big.NewInt(7)}}
		case 6:
			return respValue{data: respSimpleString("1")}
		case 7:
			return respValue{data: respVerbatimString{format: "txt", text: "1"}}
		case 8:
			return respValue{data: respBlobError("ERR x")}
		case 9:
			return respValue{data: respArray{respValue{data: respBulkString("1")}}}
		case 10:
			m := newRespMap()
			m.set(respValue{data: respBulkString("a")}, respValue{data: respInt(1)})
			return respValue{data: m}
		}
		s := respSet{}
		s[respValue{data: respBulkString("1")}] = struct{}{}
		return respValue{data: s}
	}
	p1 := vChoice("pos", 6)
	vAssume(p1 < len(t))
	args[p1] = mk("a")
	if vTier() > 0 && vBool("two") {
		p2 := vChoice("pos2", 6)
		vAssume(p2 < len(t) && p2 != p1)
		args[p2] = mk("b")
	}
	panicked, msg := vCatch(func() { cs.dispatch(respValue{data: args}) })
	vAssert("non-bulk-arguments-no-panic", !panicked)
	if panicked {
		vNote(msg)
		return
	}
	if cs.cmdQueue == nil {
		vAssert("connection-still-served", !vIsErr(vCmd(cs, "SET", "after", "1")))
	}
}
