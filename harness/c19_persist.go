//go:build verif

package redisemu

// C19 — persistence.  The real save/load code runs over a file-system/gob
// model (engine) or real files (native replay).

// vBuildPersisted fills database 0 of cs with keys of every type holding
// symbolic values, including the empty string and deadlines.
func vBuildPersisted(cs *clientState) {
	v := vString("sv", 1) // may be empty
	vCmd(cs, "SET", "str", v)
	vCmd(cs, "RPUSH", "lst", "a", vStringN("le", 1), "c")
	vCmd(cs, "HSET", "hsh", "f1", vStringN("hv", 1), "f2", "w")
	vCmd(cs, "SADD", "set", "m1", "m2")
	// the empty key name is a key name like any other
	vCmd(cs, "RPUSH", "", "x", "y")
	if vBool("ttl") {
		vCmd(cs, "PEXPIREAT", "lst", vItoa(vT0+500)+"123")
		vCmd(cs, "EXPIRE", "str", "1000")
	}
}

var vPersistKeys = []string{"str", "lst", "hsh", "set", "new", ""}

func vSnapAll(cs *clientState) []vKeySnap {
	out := make([]vKeySnap, len(vPersistKeys))
	for i, k := range vPersistKeys {
		out[i] = vSnapKey(cs, k)
	}
	return out
}

func vSnapAllEq(a, b []vKeySnap) bool {
	same := true
	for i := range a {
		same = vAnd(same, vSnapEq(a[i], b[i]))
	}
	return same
}

// vRestart loads the file into a fresh server and returns a connection on it.
func vRestart(path string) (*clientState, error) {
	cs := vNewClient()
	dsc := cs.ds.newDataStoreCommand()
	err := dsc.load(vLane, path)
	return cs, err
}

// VerifH_c19_roundtrip: save, restart, load: every key, type, value, element
// order and deadline is back; then a second change (in place, deleting or
// flushing) is saved and restored as well.
func VerifH_c19_roundtrip() {
	VerifSetup()
	vSetNow(vT0, 0)
	vFsReset()
	path := vFsPath("data.db0")
	cs := vNewClient()
	vBuildPersisted(cs)
	before := vSnapAll(cs)
	dsc := cs.ds.newDataStoreCommand()
	vAssert("save-ok", dsc.save(vLane, path) == nil)
	vAssert("file-written", vFsExists(path))
	cs2, err := vRestart(path)
	vAssert("load-ok", err == nil)
	if err != nil {
		return
	}
	vAssert("restart-restores-everything", vSnapAllEq(before, vSnapAll(cs2)))
	vAssert("restart-restores-version-counter", cs2.ds.dataObjectNumber == cs.ds.dataObjectNumber)
	oneType, nonEmpty, placed := vKeyspaceOK(cs2)
	vAssert("restart-keyspace-consistent", oneType && nonEmpty && placed)
	// the restored values work as values of their type
	vAssert("restored-string-readable", !vIsErr(vCmd(cs2, "GET", "str")))
	vAssert("restored-list-order", vIsBulk(vCmd(cs2, "LINDEX", "lst", "0"), "a") && vIsBulk(vCmd(cs2, "LINDEX", "lst", "2"), "c"))

	// second round: one more acknowledged change, then a clean shutdown
	mods := [][]string{
		{"LSET", "lst", "1", "changed"}, {"SREM", "set", "m1"}, {"EXPIRE", "hsh", "77"}, {"PERSIST", "str"}, {"DEL", "lst"},
		{"FLUSHDB"}, {"FLUSHALL"}, {"HSET", "hsh", "f1", "zz"}, {"LPUSH", "lst", "front"}, {"SET", "new", "1"}, {"UNLINK", "set"},
		{"GETEX", "str", "EX", "55"}, {"SMOVE", "set", "set2", "m1"}, {"APPEND", "str", "x"}, {"HDEL", "hsh", "f2"}, {"RENAME", "str", "new"},
	}
	m := mods[vChoice("mod", len(mods))]
	vCmd(cs2, m...)
	after := vSnapAll(cs2)
	dsc2 := cs2.ds.newDataStoreCommand()
	vAssert("second-save-ok", dsc2.save(vLane, path) == nil)
	cs3, err3 := vRestart(path)
	vAssert("second-load-ok", err3 == nil)
	if err3 != nil {
		return
	}
	vAssert("acknowledged-change-survives-restart", vSnapAllEq(after, vSnapAll(cs3)))
}

// VerifH_c19_crash: the process dies after an arbitrary number of
// file-system effects of a save: what is on disk loads as the previous or
// as the new snapshot, never as a partial, mixed or empty one.
func VerifH_c19_crash() {
	VerifSetup()
	vSetNow(vT0, 0)
	vFsReset()
	path := vFsPath("data.db0")
	cs := vNewClient()
	vCmd(cs, "SET", "str", "old")
	vCmd(cs, "RPUSH", "lst", "a", "b")
	old := vSnapAll(cs)
	dsc := cs.ds.newDataStoreCommand()
	vAssert("first-save-ok", dsc.save(vLane, path) == nil)
	// a change, then a save that is interrupted
	vCmd(cs, "SET", "str", vStringN("nv", 1))
	vCmd(cs, "HSET", "hsh", "f", "v")
	newer := vSnapAll(cs)
	cut := vChoice("effects-before-crash", 12)
	vFsCrashAfter(cut)
	dsc2 := cs.ds.newDataStoreCommand()
	dsc2.save(vLane, path)
	total := vFsEffects()
	vFsCrashAfter(-1)
	cs2, err := vRestart(path)
	vAssert("crashed-save-still-loads", err == nil)
	if err != nil {
		return
	}
	got := vSnapAll(cs2)
	vAssert("old-or-new-snapshot", vOr(vSnapAllEq(old, got), vSnapAllEq(newer, got)))
	if cut >= total {
		vAssert("completed-save-is-new-snapshot", vSnapAllEq(newer, got))
	}
	vReach("crash-in-the-middle", cut > 0 && cut < total)
}

func VerifH_c19_l2_dirty() { vL2(monG5) }

// VerifH_c19_multi_db: persistence of the whole data store set: several
// databases (one of them created after the first save), a second round of
// changes that flushes, empties or touches only some of them, a clean
// shutdown (save of every database) and a restart from the files: every
// database holds exactly what it held, flushed and deleted keys do not
// reappear, untouched databases are intact.
func VerifH_c19_multi_db() {
	VerifSetup()
	vSetNow(vT0, 0)
	vFsReset()
	base := vFsPath("data")
	dss := newDataStoreSet(vLane, base, nil)
	c := vNewClientOn(newCmdDispatcher(6379, "127.0.0.1", vCmds, vInfo, dss))
	vCmd(c, "SET", "k", "zero")
	vCmd(c, "RPUSH", "l", "a", vStringN("e", 1))
	vCmd(c, "SELECT", "3")
	vCmd(c, "SET", "k", "three")
	vCmd(c, "SADD", "s", "m")
	vCmd(c, "EXPIRE", "k", "1000")
	vAssert("first-save-ok", dss.save(vLane) == nil)
	// second round
	switch vChoice("change", 11) {
	case 8:
		// emptied key by key (unsaved), then flushed: nothing may come back
		vCmd(c, "DEL", "k", "s")
		vCmd(c, "FLUSHDB")
	case 9:
		vCmd(c, "DEL", "k", "s")
		vCmd(c, "SELECT", "0")
		vCmd(c, "FLUSHALL") // flushed from another database
	case 10:
		vCmd(c, "FLUSHDB")
		vCmd(c, "FLUSHDB") // flushing an empty, unsaved database keeps the pending change
	case 0:
		vCmd(c, "FLUSHALL")
	case 1:
		vCmd(c, "FLUSHDB") // database 3
	case 2:
		vCmd(c, "DEL", "k", "s") // database 3 becomes empty key by key
	case 3:
		vCmd(c, "SELECT", "7") // a database that did not exist at the first save
		vCmd(c, "HSET", "h", "f", "seven")
	case 4:
		vCmd(c, "SELECT", "0")
		vCmd(c, "LSET", "l", "0", "changed") // only database 0 changes
	case 5:
		vCmd(c, "SELECT", "0")
		vCmd(c, "FLUSHDB")
		vCmd(c, "SET", "k", "again") // flushed and written again
	case 6:
		vCmd(c, "PERSIST", "k") // expiry change only
	case 7:
		// nothing changes
	}
	// what every database holds now
	dbs := []string{"0", "3", "7"}
	keys := []string{"k", "l", "s", "h"}
	var want [3][4]vKeySnap
	var size [3]respValue
	for i, db := range dbs {
		vCmd(c, "SELECT", db)
		for j, k := range keys {
			want[i][j] = vSnapKey(c, k)
		}
		size[i] = vCmd(c, "DBSIZE")
	}
	vAssert("shutdown-save-ok", dss.save(vLane) == nil)
	// restart on the same path
	dss2 := newDataStoreSet(vLane, base, nil)
	c2 := vNewClientOn(newCmdDispatcher(6379, "127.0.0.1", vCmds, vInfo, dss2))
	for i, db := range dbs {
		vCmd(c2, "SELECT", db)
		same := true
		for j, k := range keys {
			same = vAnd(same, vSnapEq(want[i][j], vSnapKey(c2, k)))
		}
		vAssert("database-restored-exactly", same)
		vAssert("database-size-restored", vRespEqAny(size[i], vCmd(c2, "DBSIZE")))
	}
}

// VerifH_c19_multi_db_crash: the process dies after an arbitrary number of
// file-system effects of the save of a two-database store; after the restart
// (which walks the directory and finds whatever the crash left, including a
// temporary file) each database holds either what it held at the previous
// save or what it held at the interrupted one - never less.
func VerifH_c19_multi_db_crash() {
	VerifSetup()
	vSetNow(vT0, 0)
	vFsReset()
	base := vFsPath("data")
	dss := newDataStoreSet(vLane, base, nil)
	c := vNewClientOn(newCmdDispatcher(6379, "127.0.0.1", vCmds, vInfo, dss))
	vCmd(c, "SET", "k", "zero-old")
	vCmd(c, "SELECT", "3")
	vCmd(c, "SET", "k", "three-old")
	vAssert("first-save-ok", dss.save(vLane) == nil)
	vCmd(c, "SET", "k", "three-new")
	vCmd(c, "RPUSH", "l", "a")
	vCmd(c, "SELECT", "0")
	vCmd(c, "SET", "k", "zero-new")
	cut := vChoice("effects-before-crash", 14)
	vFsCrashAfter(cut)
	dss.save(vLane)
	total := vFsEffects()
	vFsCrashAfter(-1)
	dss2 := newDataStoreSet(vLane, base, nil)
	c2 := vNewClientOn(newCmdDispatcher(6379, "127.0.0.1", vCmds, vInfo, dss2))
	g0 := vCmd(c2, "GET", "k")
	vAssert("database-0-old-or-new", vIsBulk(g0, "zero-old") || vIsBulk(g0, "zero-new"))
	vCmd(c2, "SELECT", "3")
	g3 := vCmd(c2, "GET", "k")
	vAssert("database-3-old-or-new", vIsBulk(g3, "three-old") || vIsBulk(g3, "three-new"))
	// a database is never a mixture: the list of the new snapshot comes with the new string
	hasList := vIsInt(vCmd(c2, "EXISTS", "l"), 1)
	vAssert("database-3-not-mixed", hasList == vIsBulk(g3, "three-new"))
	if cut >= total {
		vAssert("completed-save-is-the-new-state", vIsBulk(g0, "zero-new") && vIsBulk(g3, "three-new"))
	}
	vReach("crash-between-the-two-databases", cut > 0 && cut < total)
}
