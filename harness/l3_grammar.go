//go:build verif

package redisemu

// L3 — command templates derived from the real command grammar.  The
// hand-written table of L2 covers the shapes its author thought of; this
// walker derives argument shapes from the grammar the emulator itself parses
// (redis7-fixed.txt, regenerated on every run): for every command that has a
// handler, the required arguments alone, then each optional argument added
// in turn (every alternative of a oneof, one and two occurrences of a
// repeatable argument), and everything at once.  Integer arguments are
// unconstrained 64-bit numbers, string values are symbolic bytes, keys run
// over every key type.

import "sort"

type vTok struct {
	lit  string
	kind byte // 0 literal, 'K' target key, 'S' symbolic string, 'I' integer, 'T' time integer, 'F' floating point
}

// commands that are exercised by their own harnesses (blocking, session,
// transactions, introspection with large text output)
var vL3Skip = map[string]bool{
	"blmove": true, "blmpop": true, "blpop": true, "brpop": true, "brpoplpush": true,
	"multi": true, "exec": true, "discard": true, "watch": true, "unwatch": true, "quit": true,
	"client|kill": true, "client|unblock": true, "client|list": true, "client|info": true, "client|getname": true, "client|id": true,
	"client|no-evict": true, "client|setinfo": true, "client|setname": true, "hello": true, "select": true,
	"command|count": true, "command|docs": true, "command|getkeys": true, "command|getkeysandflags": true, "command|help": true,
	"command|info": true, "command|list": true, "info": true, "flushall": true, "flushdb": true, "ping": true, "echo": true,
}

func vL3Lookup(cmds redisCommands, name string) *redisCommand {
	c, ok := cmds[name]
	if ok {
		return c
	}
	for i := len(name) - 1; i > 0; i-- {
		if name[i] == '|' {
			parent := vL3Lookup(cmds, name[:i])
			if parent == nil {
				return nil
			}
			return parent.Subcommands[name]
		}
	}
	return nil
}

// vL3Value gives the tokens of one value argument.
func vL3Value(a *redisArg, keyNo *int) []vTok {
	switch a.TypeName {
	case "key":
		*keyNo++
		switch {
		case *keyNo == 1:
			return []vTok{{kind: 'K'}}
		case a.Name == "destination" || a.Name == "newkey":
			return []vTok{{lit: "k5"}}
		case *keyNo == 2:
			return []vTok{{lit: "k4"}}
		}
		return []vTok{{lit: "k2"}}
	case "integer":
		switch a.Name {
		case "numkeys":
			return []vTok{{lit: "1"}}
		case "seconds", "milliseconds", "ttl":
			return []vTok{{kind: 'T'}}
		}
		return []vTok{{kind: 'I'}}
	case "unix-time":
		return []vTok{{kind: 'T'}}
	case "double":
		return []vTok{{kind: 'F'}}
	case "pattern":
		return []vTok{{lit: "k*"}}
	case "string":
		switch a.Name {
		case "member", "source-member":
			return []vTok{{lit: "m1"}}
		case "field":
			return []vTok{{lit: "f1"}}
		case "element", "pivot":
			return []vTok{{lit: "e1"}}
		case "encoding":
			return []vTok{{lit: "u8"}}
		case "offset":
			return []vTok{{kind: 'I'}}
		}
		return []vTok{{kind: 'S'}}
	}
	return []vTok{{kind: 'S'}}
}

// vL3Forms lists the ways argument a can be written (each a token list).
// rich=false gives only the first form.
func vL3Forms(a *redisArg, keyNo *int, rich bool) [][]vTok {
	var forms [][]vTok
	prefix := []vTok{}
	if a.Token != "" {
		prefix = append(prefix, vTok{lit: a.Token})
	}
	switch a.TypeName {
	case "pure-token":
		return [][]vTok{prefix}
	case "oneof":
		for _, alt := range a.Arguments {
			k := *keyNo
			for _, f := range vL3Forms(alt, &k, false) {
				forms = append(forms, append(append([]vTok{}, prefix...), f...))
			}
			if !rich {
				break
			}
		}
		return forms
	case "block":
		k := *keyNo
		var seq []vTok
		for _, sub := range a.Arguments {
			if sub.Optional {
				continue
			}
			f := vL3Forms(sub, &k, false)
			if len(f) > 0 {
				seq = append(seq, f[0]...)
			}
		}
		forms = append(forms, append(append([]vTok{}, prefix...), seq...))
		if rich {
			// the block with each of its optional members
			for i, opt := range a.Arguments {
				if !opt.Optional {
					continue
				}
				k2 := *keyNo
				var s2 []vTok
				for j, sub := range a.Arguments {
					if sub.Optional && j != i {
						continue
					}
					f := vL3Forms(sub, &k2, false)
					if len(f) > 0 {
						s2 = append(s2, f[0]...)
					}
				}
				forms = append(forms, append(append([]vTok{}, prefix...), s2...))
			}
		}
		*keyNo = k
		return forms
	}
	v := vL3Value(a, keyNo)
	one := append(append([]vTok{}, prefix...), v...)
	forms = append(forms, one)
	if rich && (a.Multiple || a.MultipleToken) {
		two := append([]vTok{}, one...)
		if a.MultipleToken {
			two = append(two, prefix...)
		}
		k := *keyNo
		two = append(two, vL3Value(a, &k)...)
		forms = append(forms, two)
	}
	return forms
}

// vL3Shapes derives the templates of one command.
func vL3Shapes(name string, c *redisCommand) [][]vTok {
	var head []vTok
	start := 0
	for i := 0; i <= len(name); i++ {
		if i == len(name) || name[i] == '|' {
			head = append(head, vTok{lit: name[start:i]})
			start = i + 1
		}
	}
	args := c.Arguments
	build := func(pick func(i int, a *redisArg) (use bool, form int)) []vTok {
		out := append([]vTok{}, head...)
		keyNo := 0
		for i, a := range args {
			use, form := pick(i, a)
			forms := vL3Forms(a, &keyNo, true)
			if !use || len(forms) == 0 {
				continue
			}
			if form >= len(forms) {
				form = 0
			}
			out = append(out, forms[form]...)
		}
		return out
	}
	var shapes [][]vTok
	// required arguments only
	shapes = append(shapes, build(func(i int, a *redisArg) (bool, int) { return !a.Optional, 0 }))
	// each argument in each of its forms, the others minimal
	for i, a := range args {
		k := 0
		n := len(vL3Forms(a, &k, true))
		first := 0
		if !a.Optional {
			first = 1 // form 0 of a required argument is the base shape
		}
		for f := first; f < n; f++ {
			ii, ff := i, f
			shapes = append(shapes, build(func(j int, b *redisArg) (bool, int) {
				if j == ii {
					return true, ff
				}
				return !b.Optional, 0
			}))
		}
	}
	// everything at once
	hasOpt := false
	for _, a := range args {
		if a.Optional {
			hasOpt = true
		}
	}
	if hasOpt {
		shapes = append(shapes, build(func(i int, a *redisArg) (bool, int) { return true, 0 }))
	}
	return shapes
}

var vL3Templates [][]vTok

// vL3Build derives all templates (called once from the harness; the
// result depends only on the grammar).
func vL3Build() [][]vTok {
	if vL3Templates != nil {
		return vL3Templates
	}
	var names []string
	for name := range handlerTable {
		if !vL3Skip[name] {
			names = append(names, name)
		}
	}
	sort.Strings(names)
	seen := map[string]bool{}
	for _, name := range names {
		c := vL3Lookup(vCmds, name)
		if c == nil {
			continue
		}
		for _, s := range vL3Shapes(name, c) {
			key := ""
			for _, t := range s {
				key += string(rune('a'+t.kind%26)) + t.lit + " "
			}
			if !seen[key] {
				seen[key] = true
				vL3Templates = append(vL3Templates, s)
			}
		}
	}
	return vL3Templates
}

// vL3 runs one grammar-derived template on one key state.
func vL3(mon int) {
	VerifSetup()
	tpls := vL3Build()
	cs := vNewClient()
	vCmd(cs, "SET", "k2", "s"+vStringN("k2v", 1))
	vCmd(cs, "RPUSH", "k3", "x1", "x2")
	vCmd(cs, "SADD", "k4", "m1", "m3")
	t := tpls[vChoiceBig("tpl", len(tpls))]
	// SORT derives key names from the elements (BY / GET patterns): a
	// symbolic element would make every dictionary lookup hash symbolic
	// bytes, so for SORT the contents are concrete
	kv := "7"
	if t[0].lit != "sort" {
		kv = vStringN("kv", 1)
	}
	kind := vChoice("kind", 5)
	switch kind {
	case preString:
		vCmd(cs, "SET", "k", kv)
	case preList:
		vCmd(cs, "RPUSH", "k", "e1", kv)
	case preHash:
		vCmd(cs, "HSET", "k", "f1", kv, "f2", "7")
	case preSet:
		vCmd(cs, "SADD", "k", "m1", "m2")
	}
	if kind != preAbsent && vBool("ttl") {
		vCmd(cs, "EXPIRE", "k", "100000")
	}
	args := make([]string, len(t))
	for i, tok := range t {
		switch tok.kind {
		case 'K':
			args[i] = "k"
		case 'S':
			args[i] = vStringN("s", 1)
		case 'T':
			args[i] = vL2TimeValues[vChoice("t", len(vL2TimeValues))]
		case 'F':
			args[i] = vL2Floats[vChoice("f", len(vL2Floats))]
		case 'I':
			d := vDecimal("i")
			n := vDecimalOf(d)
			// growth / loop bounds: a number the command accepts as a size
			// is small, or in the region where it must be refused
			switch t[0].lit {
			case "setbit", "setrange", "bitfield":
				vAssume(n < 64 || n >= 4294967296)
			case "srandmember", "hrandfield":
				vAssume((n >= -3 && n <= 3) || n > 4611686018427387903 || n < -4611686018427387903)
			}
			args[i] = d
		default:
			args[i] = tok.lit
		}
	}
	needSnap := mon&(monG2|monG5|monG9) != 0
	versionBefore := cs.ds.dataObjectNumber
	var before [5]vKeySnap
	if needSnap {
		for i, k := range vL2Keys {
			before[i] = vSnapKey(cs, k)
		}
	}
	cs.ds.data.dirty = false
	var r respValue
	if mon&monG7 != 0 {
		unguarded, sections, detail, shared := vMonitoredCmd(cs, kind, args)
		if unguarded > 0 {
			vNote(detail)
		}
		vAssert("G7-no-store-access-outside-a-guarded-section", unguarded == 0)
		vAssert("G7-one-guarded-section-per-command", sections <= 1)
		vAssert("no-unguarded-write-to-shared-start-up-tables", shared == "")
		return
	}
	panicked, msg := vCatch(func() { r = vCmd(cs, args...) })
	if mon&monG8 != 0 {
		vAssert("G8-no-panic", !panicked)
		if !panicked {
			vAssert("G8-connection-still-served", vIsOK(vCmd(cs, "SET", "after", "1")))
		}
	}
	if panicked {
		vNote(msg)
		return
	}
	unchanged := true
	var after [5]vKeySnap
	if needSnap {
		for i, k := range vL2Keys {
			after[i] = vSnapKey(cs, k)
			unchanged = vAnd(unchanged, vSnapEq(before[i], after[i]))
		}
	}
	if mon&monG9 != 0 {
		for i := range vL2Keys {
			if !after[i].exists {
				continue
			}
			same := vAnd(vSnapEq(before[i], after[i]), before[i].id == after[i].id)
			vAssert("G9-changed-key-carries-a-fresh-version", vOr(same, after[i].id > versionBefore))
		}
	}
	if mon&monG2 != 0 && vIsErr(r) {
		vAssert("G2-error-reply-leaves-state-unchanged", unchanged)
	}
	if mon&monG34 != 0 {
		oneType, nonEmpty, placed := vKeyspaceOK(cs)
		vAssert("G4-one-type-per-key", oneType)
		vAssert("G3-no-empty-collection", nonEmpty)
		vAssert("dict-placement-invariant", placed)
	}
	if mon&monG5 != 0 {
		vAssert("G5-change-marks-store-dirty", vOr(unchanged, cs.ds.data.dirty))
	}
}

// VerifH_c13_l3: grammar-derived templates under the no-panic monitor.
func VerifH_c13_l3() { vL3(monG8) }

// VerifH_c06_l3: grammar-derived templates under G2/G3/G4/G8.
func VerifH_c06_l3() { vL3(monG2 | monG34 | monG8) }

// VerifH_c08_l3: grammar-derived templates under the lock-set monitor.
func VerifH_c08_l3() { vL3(monG7) }

// VerifH_c10_l3_fresh: the version-stamp invariant over grammar-derived templates.
func VerifH_c10_l3_fresh() { vL3(monG9) }

// VerifH_c19_l3_dirty: every change marks the store dirty, over grammar-derived templates.
func VerifH_c19_l3_dirty() { vL3(monG5) }
