package main

// Lock-set monitor (G7): while a command runs, every read or write of
// *store memory* - the cells reachable from the data store set when the
// command starts, plus whatever the command publishes into them - is
// recorded together with the lock state.  The guard is "some mutex is held
// by this strand" (ds.mu, dss.mu, clientsMu ...); which one is reported.
// The harness asserts that no access happens outside a guarded section and
// that all accesses of one command lie inside one section of the database
// mutex.

import (
	"fmt"
	"go/types"
	"sort"
	"strings"

	"golang.org/x/tools/go/ssa"
)

type monAccess struct {
	write bool
	where string
	what  string
	addr  *value
}

type monitorState struct {
	on          bool
	cells       map[*value]string
	maps        map[*omap]string
	held        map[*value]bool // mutex cells currently held
	storeMu     *value
	acq         int // acquisitions of the database mutex while the monitor is on
	sections    int // completed or running sections of the database mutex with at least one access
	curHasAcc   bool
	unguarded   []monAccess
	guardedN    int
	lastAddr    *value
	root        value
	setupArrays map[*value]bool // first cell of slices allocated before exploration (shared tables)
	sharedWr    []monAccess
}

var mon = &monitorState{setupArrays: map[*value]bool{}}

func (m *monitorState) reset() {
	m.on = false
	m.cells = map[*value]string{}
	m.maps = map[*omap]string{}
	m.held = map[*value]bool{}
	m.storeMu = nil
	m.acq = 0
	m.sections = 0
	m.curHasAcc = false
	m.unguarded = nil
	m.guardedN = 0
	m.sharedWr = nil
}

// track adds every cell reachable from v.
func (m *monitorState) track(v value, what string, depth int) {
	if depth > 64 {
		return
	}
	switch x := v.(type) {
	case *value:
		if x == nil {
			return
		}
		if _, seen := m.cells[x]; seen {
			return
		}
		m.cells[x] = what
		m.track(*x, what, depth+1)
	case structure:
		for i := range x {
			c := &x[i]
			if _, seen := m.cells[c]; !seen {
				m.cells[c] = what
				m.track(x[i], what, depth+1)
			}
		}
	case array:
		for i := range x {
			c := &x[i]
			if _, seen := m.cells[c]; !seen {
				m.cells[c] = what
				m.track(x[i], what, depth+1)
			}
		}
	case []value:
		full := x[:cap(x)]
		for i := range full {
			c := &full[i]
			if _, seen := m.cells[c]; !seen {
				m.cells[c] = what
				m.track(full[i], what, depth+1)
			}
		}
	case *omap:
		if x == nil {
			return
		}
		if _, seen := m.maps[x]; seen {
			return
		}
		m.maps[x] = what
		for _, e := range x.ents {
			if !e.deleted {
				m.track(e.key, what, depth+1)
				m.track(e.val, what, depth+1)
			}
		}
	case iface:
		m.track(x.v, what, depth+1)
	case *closure:
		for _, e := range x.Env {
			m.track(e, what, depth+1)
		}
	}
}

func (m *monitorState) anyHeld() bool { return len(m.held) > 0 }

func (m *monitorState) access(write bool, what string, fr *frame) {
	if m.anyHeld() {
		m.guardedN++
		if m.storeMu != nil && m.held[m.storeMu] && !m.curHasAcc {
			m.curHasAcc = true
			m.sections++
		}
		return
	}
	pos := ""
	if fr != nil {
		pos = fr.fn.String()
	}
	if len(m.unguarded) < 200 {
		m.unguarded = append(m.unguarded, monAccess{write, pos, what, m.lastAddr})
	}
}

func monRead(addr *value, fr *frame) {
	if !mon.on {
		return
	}
	if fieldLogOn {
		logFieldAccess(addr, false)
	}
	if what, ok := mon.cells[addr]; ok {
		mon.lastAddr = addr
		mon.access(false, what, fr)
	}
}

func monWrite(addr *value, v value, fr *frame) {
	if !mon.on {
		return
	}
	if fieldLogOn {
		logFieldAccess(addr, true)
	}
	if what, ok := mon.cells[addr]; ok {
		mon.lastAddr = addr
		mon.access(true, what, fr)
		// publication: what is stored into tracked memory becomes tracked
		mon.track(v, what, 0)
	}
}

func monMap(m *omap, write bool, fr *frame) {
	if !mon.on || m == nil {
		return
	}
	if fieldLogOn {
		if name, ok := globalMaps[m]; ok {
			logNamedAccess("global", name+"(map contents)", write)
		}
	}
	if what, ok := mon.maps[m]; ok {
		mon.lastAddr = nil
		mon.access(write, what+" (map)", fr)
	}
}

func monLock(mu *value, lock bool) {
	if !mon.on {
		return
	}
	if lock {
		noteLockOrder(mu)
		mon.held[mu] = true
		if mu == mon.storeMu {
			mon.curHasAcc = false
			mon.acq++
		}
	} else {
		delete(mon.held, mu)
	}
}

func describeAccesses(as []monAccess) string {
	if len(as) == 0 {
		return ""
	}
	seen := map[string]bool{}
	var out []string
	for _, a := range as {
		k := "read"
		if a.write {
			k = "write"
		}
		s := fmt.Sprintf("%s of %s in %s", k, a.what, a.where)
		if !seen[s] {
			seen[s] = true
			out = append(out, s)
		}
	}
	sort.Strings(out)
	if len(out) > 6 {
		out = out[:6]
	}
	return fmt.Sprint(out)
}

func fieldIndex(t types.Type, name string) int {
	st := t.Underlying().(*types.Struct)
	for i := 0; i < st.NumFields(); i++ {
		if st.Field(i).Name() == name {
			return i
		}
	}
	panic("no field " + name)
}

func init() {
	mon.reset()
	// vMonitorBegin(cs): start recording for a command of connection cs
	externals[hpkg+"vMonitorBegin"] = func(fr *frame, a []value) value {
		mon.reset()
		csPtr := a[0].(*value)
		csT := mustDeref(fr.fn.Signature.Params().At(0).Type())
		cs := (*csPtr).(structure)
		dss := cs[fieldIndex(csT, "dss")]
		mon.track(dss, "data store set", 0)
		mon.root = dss
		dsPtr := cs[fieldIndex(csT, "ds")].(*value)
		dsT := csT.Underlying().(*types.Struct).Field(fieldIndex(csT, "ds")).Type()
		ds := (*dsPtr).(structure)
		mon.storeMu = &ds[fieldIndex(mustDeref(dsT), "mu")]
		// mutexes and lock words themselves are synchronisation, not data
		for c := range mon.cells {
			if _, isHeld := (*c).(mutexHeld); isHeld {
				delete(mon.cells, c)
			}
		}
		for _, dsv := range []value{*dsPtr} {
			d := dsv.(structure)
			delete(mon.cells, &d[fieldIndex(mustDeref(dsT), "multiLock")])
			delete(mon.cells, &d[fieldIndex(mustDeref(dsT), "commandNumber")])
			mu := d[fieldIndex(mustDeref(dsT), "mu")].(structure)
			for i := range mu {
				delete(mon.cells, &mu[i])
			}
		}
		theEx.onLock = func(mu *value, lock bool, fr *frame) { monLock(mu, lock) }
		mon.on = true
		usedIntrinsics["lock-set monitor over store memory"]++
		return nil
	}
	// vMonitorEnd() (unguarded int, sections int, detail string)
	externals[hpkg+"vMonitorEnd"] = func(fr *frame, a []value) value {
		mon.on = false
		theEx.onLock = nil
		// memory the command has detached from the store (a popped element, a
		// deleted value) is private to it from then on: unguarded reads of it
		// are not accesses to shared memory
		still := &monitorState{cells: map[*value]string{}, maps: map[*omap]string{}}
		still.track(mon.root, "", 0)
		var kept []monAccess
		for _, a := range mon.unguarded {
			if a.addr == nil || a.write {
				kept = append(kept, a)
				continue
			}
			if _, ok := still.cells[a.addr]; ok {
				kept = append(kept, a)
			}
		}
		mon.unguarded = kept
		return tuple{len(mon.unguarded), mon.sections, describeAccesses(mon.unguarded), describeAccesses(mon.sharedWr), mon.guardedN}
	}
}

func init() {
	// vLockAcquisitions(): how often the monitored command took the database mutex
	externals[hpkg+"vLockAcquisitions"] = func(fr *frame, a []value) value { return mon.acq }
	externals[hpkg+"vRaceWorkload"] = func(fr *frame, a []value) value { return nil }
}

// ---------------------------------------------------------------------
// Field-level lock sets for per-connection state (C16): every read/write of
// a clientState field is logged with the set of mutexes held, named by
// their role.  The table is written to the result file; the check pairs
// writes and reads of one field with disjoint lock sets and confirms each
// pair under the race detector.

type fieldAccess struct {
	Who   string `json:"who"` // own | other | global
	Field string `json:"field"`
	Write bool   `json:"write"`
	Locks string `json:"locks"`
	Label string `json:"label"`
}

var (
	fieldLogOn    bool
	fieldLog      = map[string]fieldAccess{}
	fieldLabel    string
	pendingField  = map[*value]string{} // cell -> "type.field"
	pendingOwnMu  = map[*value]*value{} // cell -> the mutex cell of the same object
	pendingWho    = map[*value]string{}
	ownStructs    = map[*value]bool{} // first cell of the acting connection's own objects
	mutexNames    = map[*value]string{}
	fieldLogTypes = map[string]bool{"clientState": true, "clientCxn": true, "redisStats": true, "cmdDispatcher": true, "dataStoreSet": true, "dataStore": true, "redisDict": true}
	lockClass     = map[*value]string{}
	lockInst      = map[*value]*value{}
	lockOrderLog  = map[string]lockEdge{}
)

// lockEdge: while holding a lock of class From, the command labelled Label
// acquired a lock of class To.
type lockEdge struct {
	From          string `json:"from"`
	To            string `json:"to"`
	OtherInstance bool   `json:"other_instance_of_the_same_class"`
	Gate          bool   `json:"multiDataStoreLock_held"`
	Label         string `json:"label"`
}

func lockName(mu *value) string {
	if n, ok := mutexNames[mu]; ok {
		return n
	}
	if n, ok := lockClass[mu]; ok {
		return n
	}
	return "unnamed"
}

// heldUnderGate: locks that were acquired while multiDataStoreLock was held.
// The gate orders two nested locks only if it was taken before the first.
var heldUnderGate = map[*value]bool{}

func noteLockOrder(mu *value) {
	if !fieldLogOn {
		return
	}
	gate := false
	for h := range mon.held {
		if mutexNames[h] == "multiDataStoreLock" {
			gate = true
		}
	}
	heldUnderGate[mu] = gate
	to := lockName(mu)
	for h := range mon.held {
		if h == mu {
			continue
		}
		from := lockName(h)
		other := from == to && lockInst[h] != lockInst[mu]
		if from == to && !other {
			continue
		}
		e := lockEdge{from, to, other, gate && heldUnderGate[h], fieldLabel}
		lockOrderLog[fmt.Sprintf("%s|%s|%v|%v|%s", from, to, other, gate, fieldLabel)] = e
	}
}

func noteFieldAddr(instrType types.Type, st structure, field int, cell *value) {
	nt, ok := instrType.(*types.Named)
	if !ok || !fieldLogTypes[nt.Obj().Name()] {
		return
	}
	stt := nt.Underlying().(*types.Struct)
	ft := stt.Field(field).Type().String()
	if ft == "sync.Mutex" || ft == "sync.RWMutex" {
		// remember which lock this is (for the lock-order log)
		cls := nt.Obj().Name() + "." + stt.Field(field).Name()
		if nt.Obj().Name() == "clientState" || nt.Obj().Name() == "clientCxn" {
			if len(st) > 0 && ownStructs[&st[0]] {
				cls += "(own)"
			} else {
				cls += "(other)"
			}
		}
		lockClass[cell] = cls
		if len(st) > 0 {
			lockInst[cell] = &st[0]
		}
		return
	}
	if nt.Obj().Name() == "dataStore" {
		return // only its mutex is of interest here
	}
	if fieldLabel == "connect" && (nt.Obj().Name() == "clientState" || nt.Obj().Name() == "clientCxn") {
		return // the new connection's own fields are not shared yet
	}
	pendingField[cell] = nt.Obj().Name() + "." + stt.Field(field).Name()
	switch {
	case nt.Obj().Name() != "clientState" && nt.Obj().Name() != "clientCxn":
		pendingWho[cell] = "global"
	case len(st) > 0 && ownStructs[&st[0]]:
		pendingWho[cell] = "own"
	default:
		pendingWho[cell] = "other"
	}
	for i := 0; i < stt.NumFields(); i++ {
		if stt.Field(i).Type().String() == "sync.Mutex" {
			pendingOwnMu[cell] = &st[i]
		}
	}
}

// package-level variables of the package under test (clientId, clients,
// signals ...): cell -> name, and for map-typed ones the map -> name
var (
	globalCells = map[*value]string{}
	globalMaps  = map[*omap]string{}
)

func logNamedAccess(who, name string, write bool) {
	var locks []string
	for mu := range mon.held {
		if n, ok := mutexNames[mu]; ok {
			locks = append(locks, n)
		} else {
			locks = append(locks, "another-object's-mu")
		}
	}
	sort.Strings(locks)
	fa := fieldAccess{who, name, write, strings.Join(locks, ","), fieldLabel}
	fieldLog[fmt.Sprintf("%s|%s|%v|%s|%s", fa.Who, fa.Field, fa.Write, fa.Locks, fa.Label)] = fa
}

func logFieldAccess(cell *value, write bool) {
	if gname, isGlobal := globalCells[cell]; isGlobal {
		logNamedAccess("global", "var "+gname, write)
		if m, isMap := (*cell).(*omap); isMap && m != nil {
			globalMaps[m] = gname
		}
		return
	}
	name, ok := pendingField[cell]
	if !ok {
		return
	}
	var locks []string
	for mu := range mon.held {
		if own := pendingOwnMu[cell]; own != nil && own == mu {
			locks = append(locks, "its-own-mu")
		} else if n, ok := mutexNames[mu]; ok {
			locks = append(locks, n)
		} else {
			locks = append(locks, "another-object's-mu")
		}
	}
	sort.Strings(locks)
	fa := fieldAccess{pendingWho[cell], name, write, strings.Join(locks, ","), fieldLabel}
	fieldLog[fmt.Sprintf("%s|%s|%v|%s|%s", fa.Who, fa.Field, fa.Write, fa.Locks, fa.Label)] = fa
}

func init() {
	// vFieldLogBegin(label): start logging clientState field accesses for the command 'label'
	externals[hpkg+"vFieldLogBegin"] = func(fr *frame, a []value) value {
		fieldLabel, _ = goString(a[0])
		mon.reset()
		mon.on = true
		fieldLogOn = true
		pendingField = map[*value]string{}
		pendingOwnMu = map[*value]*value{}
		pendingWho = map[*value]string{}
		ownStructs = map[*value]bool{}
		if p, ok := a[1].(*value); ok && p != nil {
			if st, ok := (*p).(structure); ok && len(st) > 0 {
				ownStructs[&st[0]] = true
			}
		}
		globalCells = map[*value]string{}
		globalMaps = map[*omap]string{}
		for gname, mem := range fr.i.mainPkg.Members {
			g, ok := mem.(*ssa.Global)
			if !ok || strings.HasPrefix(gname, "v") || strings.HasPrefix(gname, "init$") {
				continue
			}
			switch g.Type().(*types.Pointer).Elem().Underlying().(type) {
			case *types.Basic, *types.Map:
				cell := fr.i.globalAddr(g)
				globalCells[cell] = gname
				if m, isMap := (*cell).(*omap); isMap && m != nil {
					globalMaps[m] = gname
				}
			}
		}
		mutexNames = map[*value]string{}
		for _, gname := range []string{"clientsMu", "infoMu", "multiDataStoreLock"} {
			if g, ok := fr.i.mainPkg.Members[gname].(*ssa.Global); ok {
				mutexNames[fr.i.globalAddr(g)] = gname
			}
		}
		theEx.onLock = func(mu *value, lock bool, fr *frame) { monLock(mu, lock) }
		return nil
	}
	externals[hpkg+"vFieldLogEnd"] = func(fr *frame, a []value) value {
		mon.on = false
		fieldLogOn = false
		theEx.onLock = nil
		return nil
	}
}
