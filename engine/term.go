package main

// Terms: hash-consed bit-vector / boolean expression DAG with eager
// constant folding, an evaluator (for models) and an SMT-LIB2 printer.
//
// Width 0 means Bool; widths 1..64 are bit-vectors whose concrete values
// are kept in a uint64 masked to the width.

import (
	"fmt"
	"math/bits"
	"strings"
)

type Op uint8

const (
	OpConst Op = iota
	OpVar
	OpAdd
	OpSub
	OpMul
	OpUDiv
	OpSDiv
	OpURem
	OpSRem
	OpAnd
	OpOr
	OpXor
	OpNot
	OpNeg
	OpShl
	OpLShr
	OpAShr
	OpConcat
	OpExtract
	OpZExt
	OpSExt
	OpIte
	// boolean results
	OpEq
	OpUlt
	OpUle
	OpSlt
	OpSle
	OpBAnd
	OpBOr
	OpBNot
	OpBXor
)

var opNames = map[Op]string{
	OpAdd: "bvadd", OpSub: "bvsub", OpMul: "bvmul", OpUDiv: "bvudiv", OpSDiv: "bvsdiv",
	OpURem: "bvurem", OpSRem: "bvsrem", OpAnd: "bvand", OpOr: "bvor", OpXor: "bvxor",
	OpNot: "bvnot", OpNeg: "bvneg", OpShl: "bvshl", OpLShr: "bvlshr", OpAShr: "bvashr",
	OpConcat: "concat", OpIte: "ite", OpEq: "=", OpUlt: "bvult", OpUle: "bvule",
	OpSlt: "bvslt", OpSle: "bvsle", OpBAnd: "and", OpBOr: "or", OpBNot: "not", OpBXor: "xor",
}

type Term struct {
	id   int
	op   Op
	w    int // 0 = Bool
	args []*Term
	val  uint64 // OpConst value (masked); for Bool 0/1
	name string // OpVar
	hi   int    // OpExtract
	lo   int
	dec  bool // mentions a digit byte of an expanded decimal text ($dec...)
}

type termTable struct {
	tab   map[string]*Term
	next  int
	vars  map[string]*Term
	order []*Term // variables in creation order
}

var tt = &termTable{tab: map[string]*Term{}, vars: map[string]*Term{}}

func mask(w int) uint64 {
	if w >= 64 {
		return ^uint64(0)
	}
	return (uint64(1) << uint(w)) - 1
}

func (t *Term) IsConst() bool { return t.op == OpConst }
func (t *Term) IsBool() bool  { return t.w == 0 }

func (t *Term) key() string {
	var sb strings.Builder
	fmt.Fprintf(&sb, "%d:%d:", t.op, t.w)
	switch t.op {
	case OpConst:
		fmt.Fprintf(&sb, "%d", t.val)
	case OpVar:
		sb.WriteString(t.name)
	case OpExtract:
		fmt.Fprintf(&sb, "%d:%d:", t.hi, t.lo)
	}
	for _, a := range t.args {
		fmt.Fprintf(&sb, "%d,", a.id)
	}
	return sb.String()
}

func intern(t *Term) *Term {
	k := t.key()
	if e, ok := tt.tab[k]; ok {
		return e
	}
	t.id = tt.next
	tt.next++
	if t.op == OpVar {
		t.dec = strings.HasPrefix(t.name, "$dec")
	}
	for _, a := range t.args {
		if a.dec {
			t.dec = true
		}
	}
	tt.tab[k] = t
	return t
}

func mkConst(w int, v uint64) *Term {
	if w == 0 {
		if v != 0 {
			v = 1
		}
	} else {
		v &= mask(w)
	}
	return intern(&Term{op: OpConst, w: w, val: v})
}

var (
	tTrue  = mkConst(0, 1)
	tFalse = mkConst(0, 0)
)

func mkBool(b bool) *Term {
	if b {
		return tTrue
	}
	return tFalse
}

func mkVar(name string, w int) *Term {
	if e, ok := tt.vars[name]; ok {
		if e.w != w {
			panic(fmt.Sprintf("variable %s redeclared with width %d (was %d)", name, w, e.w))
		}
		return e
	}
	t := intern(&Term{op: OpVar, w: w, name: name})
	tt.vars[name] = t
	tt.order = append(tt.order, t)
	return t
}

func sext64(v uint64, w int) int64 {
	if w >= 64 {
		return int64(v)
	}
	sh := uint(64 - w)
	return int64(v<<sh) >> sh
}

// evalOp computes op on concrete argument values.
func evalOp(op Op, w int, aw int, a []uint64, hi, lo int) uint64 {
	m := mask(w)
	switch op {
	case OpAdd:
		return (a[0] + a[1]) & m
	case OpSub:
		return (a[0] - a[1]) & m
	case OpMul:
		return (a[0] * a[1]) & m
	case OpUDiv:
		if a[1] == 0 {
			return m
		}
		return (a[0] / a[1]) & m
	case OpURem:
		if a[1] == 0 {
			return a[0]
		}
		return (a[0] % a[1]) & m
	case OpSDiv:
		x, y := sext64(a[0], w), sext64(a[1], w)
		if y == 0 {
			if x >= 0 {
				return m
			}
			return 1
		}
		if y == -1 {
			return uint64(-x) & m
		}
		return uint64(x/y) & m
	case OpSRem:
		x, y := sext64(a[0], w), sext64(a[1], w)
		if y == 0 {
			return a[0]
		}
		if y == -1 {
			return 0
		}
		return uint64(x%y) & m
	case OpAnd:
		return a[0] & a[1]
	case OpOr:
		return a[0] | a[1]
	case OpXor:
		return a[0] ^ a[1]
	case OpNot:
		return (^a[0]) & m
	case OpNeg:
		return (-a[0]) & m
	case OpShl:
		if a[1] >= uint64(w) {
			return 0
		}
		return (a[0] << a[1]) & m
	case OpLShr:
		if a[1] >= uint64(w) {
			return 0
		}
		return a[0] >> a[1]
	case OpAShr:
		x := sext64(a[0], w)
		s := a[1]
		if s >= uint64(w) {
			s = uint64(w - 1)
		}
		return uint64(x>>s) & m
	case OpExtract:
		return (a[0] >> uint(lo)) & mask(hi-lo+1)
	case OpZExt:
		return a[0]
	case OpSExt:
		return uint64(sext64(a[0], aw)) & m
	case OpIte:
		if a[0] != 0 {
			return a[1]
		}
		return a[2]
	case OpEq:
		return b2u(a[0] == a[1])
	case OpUlt:
		return b2u(a[0] < a[1])
	case OpUle:
		return b2u(a[0] <= a[1])
	case OpSlt:
		return b2u(sext64(a[0], aw) < sext64(a[1], aw))
	case OpSle:
		return b2u(sext64(a[0], aw) <= sext64(a[1], aw))
	case OpBAnd:
		for _, x := range a {
			if x == 0 {
				return 0
			}
		}
		return 1
	case OpBOr:
		for _, x := range a {
			if x != 0 {
				return 1
			}
		}
		return 0
	case OpBNot:
		return b2u(a[0] == 0)
	case OpBXor:
		return b2u((a[0] != 0) != (a[1] != 0))
	}
	panic(fmt.Sprintf("evalOp: unhandled op %d", op))
}

func b2u(b bool) uint64 {
	if b {
		return 1
	}
	return 0
}

func allConst(args ...*Term) bool {
	for _, a := range args {
		if a.op != OpConst {
			return false
		}
	}
	return true
}

// mkBin builds a width-preserving binary bit-vector op.
func mkBin(op Op, x, y *Term) *Term {
	if x.w != y.w || x.w == 0 {
		panic(fmt.Sprintf("mkBin %s: width mismatch %d vs %d", opNames[op], x.w, y.w))
	}
	w := x.w
	if x.op == OpConst && y.op == OpConst {
		return mkConst(w, evalOp(op, w, w, []uint64{x.val, y.val}, 0, 0))
	}
	// identities
	switch op {
	case OpAdd:
		if x.op == OpConst && x.val == 0 {
			return y
		}
		if y.op == OpConst && y.val == 0 {
			return x
		}
		if x.op == OpConst { // canonical: const on the right
			x, y = y, x
		}
		// (a + c1) + c2 -> a + (c1+c2)
		if y.op == OpConst && x.op == OpAdd && x.args[1].op == OpConst {
			return mkBin(OpAdd, x.args[0], mkConst(w, x.args[1].val+y.val))
		}
	case OpSub:
		if y.op == OpConst && y.val == 0 {
			return x
		}
		if x == y {
			return mkConst(w, 0)
		}
		if y.op == OpConst {
			return mkBin(OpAdd, x, mkConst(w, -y.val))
		}
	case OpMul:
		if x.op == OpConst {
			x, y = y, x
		}
		if y.op == OpConst {
			if y.val == 0 {
				return y
			}
			if y.val == 1 {
				return x
			}
		}
	case OpAnd:
		if x.op == OpConst {
			x, y = y, x
		}
		if y.op == OpConst {
			if y.val == 0 {
				return y
			}
			if y.val == mask(w) {
				return x
			}
		}
		if x == y {
			return x
		}
		// (zext a) & c where c covers all of a's bits -> zext a
		if y.op == OpConst && x.op == OpZExt {
			am := mask(x.args[0].w)
			if y.val&am == am {
				return x
			}
			if y.val&am == 0 {
				return mkConst(w, 0)
			}
		}
	case OpOr:
		if x.op == OpConst {
			x, y = y, x
		}
		if y.op == OpConst {
			if y.val == 0 {
				return x
			}
			if y.val == mask(w) {
				return y
			}
		}
		if x == y {
			return x
		}
	case OpXor:
		if x.op == OpConst {
			x, y = y, x
		}
		if y.op == OpConst && y.val == 0 {
			return x
		}
		if x == y {
			return mkConst(w, 0)
		}
	case OpShl, OpLShr, OpAShr:
		if y.op == OpConst {
			if y.val == 0 {
				return x
			}
			if y.val >= uint64(w) && op != OpAShr {
				return mkConst(w, 0)
			}
		}
		if x.op == OpConst && x.val == 0 {
			return x
		}
	case OpUDiv, OpSDiv, OpURem, OpSRem:
		if y.op == OpConst && y.val == 1 {
			if op == OpUDiv || op == OpSDiv {
				return x
			}
			return mkConst(w, 0)
		}
		// division by a power of two: shifts and masks instead of a divider
		if y.op == OpConst && y.val != 0 && y.val&(y.val-1) == 0 && sext64(y.val, w) > 0 {
			k := uint64(bits.TrailingZeros64(y.val))
			kc := mkConst(w, k)
			switch op {
			case OpUDiv:
				return mkBin(OpLShr, x, kc)
			case OpURem:
				return mkBin(OpAnd, x, mkConst(w, y.val-1))
			case OpSDiv, OpSRem:
				// bias = (x >>s (w-1)) & (2^k - 1); q = (x + bias) >>s k
				sign := mkBin(OpAShr, x, mkConst(w, uint64(w-1)))
				bias := mkBin(OpAnd, sign, mkConst(w, y.val-1))
				q := mkBin(OpAShr, mkBin(OpAdd, x, bias), kc)
				if op == OpSDiv {
					return q
				}
				return mkBin(OpSub, x, mkBin(OpShl, q, kc))
			}
		}
	}
	return intern(&Term{op: op, w: w, args: []*Term{x, y}})
}

func mkUn(op Op, x *Term) *Term {
	if x.op == OpConst {
		return mkConst(x.w, evalOp(op, x.w, x.w, []uint64{x.val}, 0, 0))
	}
	if x.op == op && (op == OpNot || op == OpNeg) {
		return x.args[0]
	}
	return intern(&Term{op: op, w: x.w, args: []*Term{x}})
}

func mkExtract(x *Term, hi, lo int) *Term {
	if hi < lo || hi >= x.w {
		panic(fmt.Sprintf("mkExtract: bad range [%d:%d] of width %d", hi, lo, x.w))
	}
	w := hi - lo + 1
	if w == x.w {
		return x
	}
	if x.op == OpConst {
		return mkConst(w, x.val>>uint(lo))
	}
	switch x.op {
	case OpZExt:
		aw := x.args[0].w
		if hi < aw {
			return mkExtract(x.args[0], hi, lo)
		}
		if lo >= aw {
			return mkConst(w, 0)
		}
		if lo == 0 {
			return mkZExt(x.args[0], w)
		}
	case OpSExt:
		aw := x.args[0].w
		if hi < aw {
			return mkExtract(x.args[0], hi, lo)
		}
	case OpExtract:
		return mkExtract(x.args[0], x.lo+hi, x.lo+lo)
	case OpConcat:
		lw := x.args[1].w
		if hi < lw {
			return mkExtract(x.args[1], hi, lo)
		}
		if lo >= lw {
			return mkExtract(x.args[0], hi-lw, lo-lw)
		}
	case OpAnd, OpOr, OpXor:
		if lo == 0 || true {
			return mkBin(x.op, mkExtract(x.args[0], hi, lo), mkExtract(x.args[1], hi, lo))
		}
	case OpAdd, OpSub, OpMul:
		if lo == 0 {
			return mkBin(x.op, mkExtract(x.args[0], hi, 0), mkExtract(x.args[1], hi, 0))
		}
	case OpIte:
		if x.args[1].op == OpConst || x.args[2].op == OpConst {
			return mkIte(x.args[0], mkExtract(x.args[1], hi, lo), mkExtract(x.args[2], hi, lo))
		}
	}
	return intern(&Term{op: OpExtract, w: w, args: []*Term{x}, hi: hi, lo: lo})
}

func mkZExt(x *Term, w int) *Term {
	if w == x.w {
		return x
	}
	if w < x.w {
		return mkExtract(x, w-1, 0)
	}
	if x.op == OpConst {
		return mkConst(w, x.val)
	}
	if x.op == OpZExt {
		return mkZExt(x.args[0], w)
	}
	return intern(&Term{op: OpZExt, w: w, args: []*Term{x}})
}

func mkSExt(x *Term, w int) *Term {
	if w == x.w {
		return x
	}
	if w < x.w {
		return mkExtract(x, w-1, 0)
	}
	if x.op == OpConst {
		return mkConst(w, uint64(sext64(x.val, x.w)))
	}
	if x.op == OpSExt {
		return mkSExt(x.args[0], w)
	}
	if x.op == OpZExt { // zext then sext: top bit is zero
		return mkZExt(x.args[0], w)
	}
	return intern(&Term{op: OpSExt, w: w, args: []*Term{x}})
}

func mkConcat(hi, lo *Term) *Term {
	w := hi.w + lo.w
	if w > 64 {
		panic("mkConcat: width > 64")
	}
	if hi.op == OpConst && lo.op == OpConst {
		return mkConst(w, hi.val<<uint(lo.w)|lo.val)
	}
	if hi.op == OpConst && hi.val == 0 {
		return mkZExt(lo, w)
	}
	return intern(&Term{op: OpConcat, w: w, args: []*Term{hi, lo}})
}

func mkIte(c, a, b *Term) *Term {
	if c.w != 0 || a.w != b.w {
		panic(fmt.Sprintf("mkIte: bad widths c=%d a=%d b=%d", c.w, a.w, b.w))
	}
	if c.op == OpConst {
		if c.val != 0 {
			return a
		}
		return b
	}
	if a == b {
		return a
	}
	if a.w == 0 {
		// boolean ite
		if a.op == OpConst && b.op == OpConst {
			if a.val != 0 {
				return c
			}
			return mkNot(c)
		}
		if a.op == OpConst {
			if a.val != 0 {
				return mkOr(c, b)
			}
			return mkAnd(mkNot(c), b)
		}
		if b.op == OpConst {
			if b.val != 0 {
				return mkOr(mkNot(c), a)
			}
			return mkAnd(c, a)
		}
	}
	if c.op == OpBNot {
		return mkIte(c.args[0], b, a)
	}
	return intern(&Term{op: OpIte, w: a.w, args: []*Term{c, a, b}})
}

func mkNot(x *Term) *Term {
	if x.w != 0 {
		panic("mkNot: not a bool")
	}
	if x.op == OpConst {
		return mkBool(x.val == 0)
	}
	if x.op == OpBNot {
		return x.args[0]
	}
	return intern(&Term{op: OpBNot, w: 0, args: []*Term{x}})
}

func mkAnd(xs ...*Term) *Term {
	var out []*Term
	seen := map[int]bool{}
	for _, x := range xs {
		if x.w != 0 {
			panic("mkAnd: not a bool")
		}
		if x.op == OpConst {
			if x.val == 0 {
				return tFalse
			}
			continue
		}
		if x.op == OpBAnd {
			for _, y := range x.args {
				if !seen[y.id] {
					seen[y.id] = true
					out = append(out, y)
				}
			}
			continue
		}
		if !seen[x.id] {
			seen[x.id] = true
			out = append(out, x)
		}
	}
	for _, x := range out {
		if x.op == OpBNot && seen[x.args[0].id] {
			return tFalse
		}
	}
	if len(out) == 0 {
		return tTrue
	}
	if len(out) == 1 {
		return out[0]
	}
	return intern(&Term{op: OpBAnd, w: 0, args: out})
}

func mkOr(xs ...*Term) *Term {
	var out []*Term
	seen := map[int]bool{}
	for _, x := range xs {
		if x.w != 0 {
			panic("mkOr: not a bool")
		}
		if x.op == OpConst {
			if x.val != 0 {
				return tTrue
			}
			continue
		}
		if x.op == OpBOr {
			for _, y := range x.args {
				if !seen[y.id] {
					seen[y.id] = true
					out = append(out, y)
				}
			}
			continue
		}
		if !seen[x.id] {
			seen[x.id] = true
			out = append(out, x)
		}
	}
	for _, x := range out {
		if x.op == OpBNot && seen[x.args[0].id] {
			return tTrue
		}
	}
	if len(out) == 0 {
		return tFalse
	}
	if len(out) == 1 {
		return out[0]
	}
	return intern(&Term{op: OpBOr, w: 0, args: out})
}

func mkBXor(x, y *Term) *Term {
	if x.op == OpConst {
		if x.val != 0 {
			return mkNot(y)
		}
		return y
	}
	if y.op == OpConst {
		if y.val != 0 {
			return mkNot(x)
		}
		return x
	}
	if x == y {
		return tFalse
	}
	return intern(&Term{op: OpBXor, w: 0, args: []*Term{x, y}})
}

func mkEq(x, y *Term) *Term {
	if x.w != y.w {
		panic(fmt.Sprintf("mkEq: width mismatch %d vs %d", x.w, y.w))
	}
	if x == y {
		return tTrue
	}
	if x.op == OpConst && y.op == OpConst {
		return mkBool(x.val == y.val)
	}
	if x.w == 0 {
		return mkNot(mkBXor(x, y))
	}
	if x.op == OpConst {
		x, y = y, x
	}
	if y.op == OpConst {
		// zext(a) == c
		if x.op == OpZExt {
			aw := x.args[0].w
			if y.val&^mask(aw) != 0 {
				return tFalse
			}
			return mkEq(x.args[0], mkConst(aw, y.val))
		}
		// ite(c, k1, k2) == k with constants
		if x.op == OpIte && x.args[1].op == OpConst && x.args[2].op == OpConst {
			a := x.args[1].val == y.val
			b := x.args[2].val == y.val
			switch {
			case a && b:
				return tTrue
			case a:
				return x.args[0]
			case b:
				return mkNot(x.args[0])
			default:
				return tFalse
			}
		}
		// (a + c1) == c2 -> a == c2-c1
		if x.op == OpAdd && x.args[1].op == OpConst {
			return mkEq(x.args[0], mkConst(x.w, y.val-x.args[1].val))
		}
	}
	if x.id > y.id && y.op != OpConst {
		x, y = y, x
	}
	return intern(&Term{op: OpEq, w: 0, args: []*Term{x, y}})
}

func mkCmp(op Op, x, y *Term) *Term {
	if x.w != y.w || x.w == 0 {
		panic(fmt.Sprintf("mkCmp: width mismatch %d vs %d", x.w, y.w))
	}
	if x.op == OpConst && y.op == OpConst {
		return mkBool(evalOp(op, 0, x.w, []uint64{x.val, y.val}, 0, 0) != 0)
	}
	if x == y {
		return mkBool(op == OpUle || op == OpSle)
	}
	switch op {
	case OpUlt:
		if y.op == OpConst && y.val == 0 {
			return tFalse
		}
		if x.op == OpConst && x.val == mask(x.w) {
			return tFalse
		}
		// zext(a) <u c where c > max(a)
		if x.op == OpZExt && y.op == OpConst && y.val > mask(x.args[0].w) {
			return tTrue
		}
	case OpUle:
		if x.op == OpConst && x.val == 0 {
			return tTrue
		}
		if y.op == OpConst && y.val == mask(x.w) {
			return tTrue
		}
		if x.op == OpZExt && y.op == OpConst && y.val >= mask(x.args[0].w) {
			return tTrue
		}
	case OpSlt:
		// zext(a) <s 0 is false
		if x.op == OpZExt && y.op == OpConst && sext64(y.val, y.w) <= 0 {
			return tFalse
		}
		if x.op == OpZExt && y.op == OpConst && sext64(y.val, y.w) > int64(mask(x.args[0].w)) {
			return tTrue
		}
	case OpSle:
		if x.op == OpZExt && y.op == OpConst && sext64(y.val, y.w) < 0 {
			return tFalse
		}
		if x.op == OpConst && sext64(x.val, x.w) <= 0 && y.op == OpZExt {
			return tTrue
		}
	}
	return intern(&Term{op: op, w: 0, args: []*Term{x, y}})
}

// ---------------------------------------------------------------------
// Evaluation under a model

type Model map[string]uint64

func evalTerm(t *Term, m Model, memo map[int]uint64) uint64 {
	if t.op == OpConst {
		return t.val
	}
	if v, ok := memo[t.id]; ok {
		return v
	}
	var r uint64
	switch t.op {
	case OpVar:
		r = m[t.name] & maskOrBool(t.w)
	case OpIte:
		if evalTerm(t.args[0], m, memo) != 0 {
			r = evalTerm(t.args[1], m, memo)
		} else {
			r = evalTerm(t.args[2], m, memo)
		}
	case OpConcat:
		r = evalTerm(t.args[0], m, memo)<<uint(t.args[1].w) | evalTerm(t.args[1], m, memo)
	default:
		a := make([]uint64, len(t.args))
		for i, x := range t.args {
			a[i] = evalTerm(x, m, memo)
		}
		aw := 0
		if len(t.args) > 0 {
			aw = t.args[0].w
		}
		w := t.w
		r = evalOp(t.op, w, aw, a, t.hi, t.lo)
	}
	memo[t.id] = r
	return r
}

func maskOrBool(w int) uint64 {
	if w == 0 {
		return 1
	}
	return mask(w)
}

func (m Model) Eval(t *Term) uint64 {
	return evalTerm(t, m, map[int]uint64{})
}

// ---------------------------------------------------------------------
// SMT-LIB printing

func sortOf(w int) string {
	if w == 0 {
		return "Bool"
	}
	return fmt.Sprintf("(_ BitVec %d)", w)
}

func constLit(w int, v uint64) string {
	if w == 0 {
		if v != 0 {
			return "true"
		}
		return "false"
	}
	if w%4 == 0 {
		return fmt.Sprintf("#x%0*x", w/4, v)
	}
	return fmt.Sprintf("#b%0*b", w, v)
}

func smtName(name string) string {
	return "|" + strings.ReplaceAll(name, "|", "_") + "|"
}

// exprOf prints the node with its arguments referenced by name (n<id>) or
// inline when they are leaves.
func refOf(t *Term) string {
	switch t.op {
	case OpConst:
		return constLit(t.w, t.val)
	case OpVar:
		return smtName(t.name)
	}
	return fmt.Sprintf("n%d", t.id)
}

func exprOf(t *Term) string {
	switch t.op {
	case OpConst, OpVar:
		return refOf(t)
	case OpExtract:
		return fmt.Sprintf("((_ extract %d %d) %s)", t.hi, t.lo, refOf(t.args[0]))
	case OpZExt:
		return fmt.Sprintf("((_ zero_extend %d) %s)", t.w-t.args[0].w, refOf(t.args[0]))
	case OpSExt:
		return fmt.Sprintf("((_ sign_extend %d) %s)", t.w-t.args[0].w, refOf(t.args[0]))
	}
	var sb strings.Builder
	sb.WriteByte('(')
	sb.WriteString(opNames[t.op])
	for _, a := range t.args {
		sb.WriteByte(' ')
		sb.WriteString(refOf(a))
	}
	sb.WriteByte(')')
	return sb.String()
}

// termSize returns the number of DAG nodes reachable from t.
func termSize(t *Term, seen map[int]bool) int {
	if seen[t.id] {
		return 0
	}
	seen[t.id] = true
	n := 1
	for _, a := range t.args {
		n += termSize(a, seen)
	}
	return n
}

// String renders a term as a nested s-expression (for samples/debug).
func (t *Term) String() string {
	return t.str(0)
}

func (t *Term) str(depth int) string {
	if depth > 6 {
		return "…"
	}
	switch t.op {
	case OpConst:
		if t.w == 0 {
			return constLit(0, t.val)
		}
		return fmt.Sprintf("%d", t.val)
	case OpVar:
		return t.name
	case OpExtract:
		return fmt.Sprintf("%s[%d:%d]", t.args[0].str(depth+1), t.hi, t.lo)
	case OpZExt:
		return fmt.Sprintf("zx%d(%s)", t.w, t.args[0].str(depth+1))
	case OpSExt:
		return fmt.Sprintf("sx%d(%s)", t.w, t.args[0].str(depth+1))
	}
	var sb strings.Builder
	sb.WriteByte('(')
	sb.WriteString(opNames[t.op])
	for _, a := range t.args {
		sb.WriteByte(' ')
		sb.WriteString(a.str(depth + 1))
	}
	sb.WriteByte(')')
	return sb.String()
}

// collectVars appends all variables under t.
func collectVars(t *Term, seen map[int]bool, out *[]*Term) {
	if seen[t.id] {
		return
	}
	seen[t.id] = true
	if t.op == OpVar {
		*out = append(*out, t)
		return
	}
	for _, a := range t.args {
		collectVars(a, seen, out)
	}
}
