package main

// A model of the file system and of encoding/gob for the persistence
// harness (C19).  A file is a list of records; gob.Encode appends a deep
// copy of the value, gob.Decode pops one and stores it through the pointer.
// Every state-changing call (Create = truncate, Encode = append, Rename,
// Remove) is one *effect*; a crash is modelled by dropping every effect from
// a harness-chosen index on (a crash loses a suffix of effects).
//
// Trusted contract: gob round-trips the value types the store uses, with
// gob's documented quirk that an empty byte slice decodes as nil.

import (
	"fmt"
	"go/types"
	"sort"
	"strings"

	"golang.org/x/tools/go/ssa"
)

type fsFile struct {
	records []fsRecord
}

type fsRecord struct {
	t types.Type
	v value
}

type fsHandle struct {
	name   string
	pos    int
	closed bool
	write  bool
}

type fsState struct {
	files    map[string]*fsFile
	handles  map[*value]*fsHandle // *os.File -> handle
	encoders map[*value]*fsHandle // *gob.Encoder / *gob.Decoder -> handle
	effects  int
	crashAt  int // effects with index >= crashAt are dropped; -1 = never
}

var fs = &fsState{}

func (f *fsState) reset() {
	f.files = map[string]*fsFile{}
	f.handles = map[*value]*fsHandle{}
	f.encoders = map[*value]*fsHandle{}
	f.effects = 0
	f.crashAt = -1
}

// effect reports whether the next state-changing call still happens.
func (f *fsState) effect() bool {
	i := f.effects
	f.effects++
	return f.crashAt < 0 || i < f.crashAt
}

func cloneFile(x *fsFile) *fsFile {
	if x == nil {
		return nil
	}
	return &fsFile{records: append([]fsRecord{}, x.records...)}
}

// deepCopy copies slices/maps/aggregates so that the file does not alias
// live store memory.
func deepCopy(v value) value {
	switch x := v.(type) {
	case []value:
		if x == nil {
			return x
		}
		out := make([]value, len(x))
		for i := range x {
			out[i] = deepCopy(x[i])
		}
		return out
	case structure:
		out := make(structure, len(x))
		for i := range x {
			out[i] = deepCopy(x[i])
		}
		return out
	case array:
		out := make(array, len(x))
		for i := range x {
			out[i] = deepCopy(x[i])
		}
		return out
	case *omap:
		if x == nil {
			return x
		}
		out := makeMap(x.keyType, 0)
		trailWas := trailOn
		trailOn = false
		for _, e := range x.ents {
			if !e.deleted {
				out.insert(deepCopy(e.key), deepCopy(e.val))
			}
		}
		trailOn = trailWas
		return out
	case iface:
		return iface{t: x.t, v: deepCopy(x.v)}
	}
	return v
}

// gobQuirks applies the decoding quirks of gob: empty byte slices come back nil.
func gobQuirks(t types.Type, v value) value {
	switch tt := t.Underlying().(type) {
	case *types.Slice:
		s, _ := v.([]value)
		if len(s) == 0 {
			if b, ok := tt.Elem().Underlying().(*types.Basic); ok && b.Kind() == types.Uint8 {
				return []value(nil)
			}
			return v
		}
		out := make([]value, len(s))
		for i := range s {
			out[i] = gobQuirks(tt.Elem(), s[i])
		}
		return out
	}
	return v
}

func newFakePtr() *value {
	v := value(structure{(*value)(nil)})
	return &v
}

func init() {
	fs.reset()
	osFileErr := func(msg string) value { return errValue(msg) }
	externals["os.Create"] = func(fr *frame, a []value) value {
		name, ok := goString(a[0])
		if !ok {
			theEx.unsupported("os.Create with symbolic name")
		}
		usedIntrinsics["file system model (os.Create/Open/Rename/Remove, gob Encode/Decode as record lists)"]++
		h := &fsHandle{name: name, write: true}
		p := newFakePtr()
		trailUndoFs()
		if fs.effect() {
			fs.files[name] = &fsFile{}
		}
		fs.handles[p] = h
		return tuple{p, iface{}}
	}
	externals["os.Open"] = func(fr *frame, a []value) value {
		name, _ := goString(a[0])
		usedIntrinsics["file system model (os.Create/Open/Rename/Remove, gob Encode/Decode as record lists)"]++
		if _, ok := fs.files[name]; !ok {
			return tuple{(*value)(nil), osFileErr("open " + name + ": no such file or directory")}
		}
		trailUndoFs()
		h := &fsHandle{name: name}
		p := newFakePtr()
		fs.handles[p] = h
		return tuple{p, iface{}}
	}
	externals["(*os.File).Close"] = func(fr *frame, a []value) value { return iface{} }
	externals["(*os.File).Sync"] = func(fr *frame, a []value) value { return iface{} }
	externals["os.Rename"] = func(fr *frame, a []value) value {
		from, _ := goString(a[0])
		to, _ := goString(a[1])
		if _, ok := fs.files[from]; !ok {
			return osFileErr("rename " + from + ": no such file or directory")
		}
		trailUndoFs()
		if fs.effect() {
			fs.files[to] = fs.files[from]
			delete(fs.files, from)
		}
		return iface{}
	}
	externals["os.Remove"] = func(fr *frame, a []value) value {
		name, _ := goString(a[0])
		if _, ok := fs.files[name]; !ok {
			return osFileErr("remove " + name + ": no such file or directory")
		}
		trailUndoFs()
		if fs.effect() {
			delete(fs.files, name)
		}
		return iface{}
	}
	externals["encoding/gob.NewEncoder"] = func(fr *frame, a []value) value {
		w := a[0].(iface)
		fp, _ := w.v.(*value)
		h := fs.handles[fp]
		if h == nil {
			theEx.unsupported("gob.NewEncoder on something that is not a modelled file")
		}
		p := newFakePtr()
		trailUndoFs()
		fs.encoders[p] = h
		return p
	}
	externals["encoding/gob.NewDecoder"] = externals["encoding/gob.NewEncoder"]
	externals["(*encoding/gob.Encoder).Encode"] = func(fr *frame, a []value) value {
		h := fs.encoders[a[0].(*value)]
		e := a[1].(iface)
		trailUndoFs()
		if fs.effect() {
			f := fs.files[h.name]
			if f == nil {
				// the Create was lost in the crash as well: nothing to append to
				return iface{}
			}
			f.records = append(f.records, fsRecord{e.t, deepCopy(e.v)})
		}
		return iface{}
	}
	externals["(*encoding/gob.Decoder).Decode"] = func(fr *frame, a []value) value {
		h := fs.encoders[a[0].(*value)]
		dst := a[1].(iface)
		f := fs.files[h.name]
		if f == nil || h.pos >= len(f.records) {
			return errValue("EOF")
		}
		rec := f.records[h.pos]
		trailUndoFs()
		h.pos++
		pt, ok := dst.t.Underlying().(*types.Pointer)
		if !ok {
			theEx.unsupported("gob Decode into non-pointer")
		}
		if !types.Identical(pt.Elem().Underlying(), rec.t.Underlying()) {
			return errValue(fmt.Sprintf("gob: type mismatch: %s vs %s", pt.Elem(), rec.t))
		}
		nv := gobQuirks(rec.t, deepCopy(rec.v))
		if _, isStruct := rec.t.Underlying().(*types.Struct); isStruct {
			// gob does not transmit zero-valued struct fields, and Decode leaves
			// the destination's fields that were not transmitted as they are
			nv = gobMergeStruct(rec.t, load(pt.Elem(), dst.v.(*value)), nv)
		}
		store(pt.Elem(), dst.v.(*value), nv)
		return iface{}
	}
	externals[hpkg+"vFsReset"] = func(fr *frame, a []value) value {
		trailUndoFs()
		fs.reset()
		return nil
	}
	externals[hpkg+"vFsCrashAfter"] = func(fr *frame, a []value) value {
		trailUndoFs()
		fs.crashAt = a[0].(int)
		fs.effects = 0
		return nil
	}
	externals[hpkg+"vFsEffects"] = func(fr *frame, a []value) value { return fs.effects }
	externals[hpkg+"vFsExists"] = func(fr *frame, a []value) value {
		name, _ := goString(a[0])
		_, ok := fs.files[name]
		return ok
	}
}

// trailUndoFs snapshots the model so that the path rollback restores it.
func trailUndoFs() {
	if !trailOn {
		return
	}
	files := map[string]*fsFile{}
	for k, v := range fs.files {
		files[k] = cloneFile(v)
	}
	handles := map[*value]*fsHandle{}
	for k, v := range fs.handles {
		c := *v
		handles[k] = &c
	}
	encs := map[*value]*fsHandle{}
	for k, v := range fs.encoders {
		// keep encoder -> handle identity through the copy
		for hk, hv := range fs.handles {
			if hv == v {
				encs[k] = handles[hk]
			}
		}
		if encs[k] == nil {
			c := *v
			encs[k] = &c
		}
	}
	effects, crashAt := fs.effects, fs.crashAt
	trailUndo(func() {
		fs.files, fs.handles, fs.encoders, fs.effects, fs.crashAt = files, handles, encs, effects, crashAt
	})
}

func init() {
	externals[hpkg+"vFsPath"] = func(fr *frame, a []value) value { return a[0] }
}

func init() {
	// filepath.WalkDir over the model: every file directly in root is visited
	// in name order with a vDirEntry (harness type) as its directory entry.
	externals["path/filepath.WalkDir"] = func(fr *frame, a []value) value {
		root, _ := goString(a[0])
		var names []string
		for name := range fs.files {
			dir := "."
			base := name
			if i := strings.LastIndex(name, "/"); i >= 0 {
				dir, base = name[:i], name[i+1:]
				if dir == "" {
					dir = "/"
				}
			}
			_ = base
			if dir == root || dir+"/" == root {
				names = append(names, name)
			}
		}
		sort.Strings(names)
		det, ok := fr.i.mainPkg.Members["vDirEntry"].(*ssa.Type)
		if !ok {
			theEx.unsupported("filepath.WalkDir without the harness type vDirEntry")
		}
		usedIntrinsics["file system model (filepath.WalkDir over the model's files)"]++
		for _, name := range names {
			base := name
			if i := strings.LastIndex(name, "/"); i >= 0 {
				base = name[i+1:]
			}
			entry := iface{t: det.Type(), v: structure{base}}
			res := call(fr.i, fr, fr.callpos, a[1], []value{name, entry, iface{}})
			if e, isIface := res.(iface); isIface && e.t != nil {
				return e
			}
		}
		return iface{}
	}
	externals["path/filepath.Split"] = func(fr *frame, a []value) value {
		p, ok := goString(a[0])
		if !ok {
			return notHandled
		}
		i := strings.LastIndex(p, "/")
		return tuple{p[:i+1], p[i+1:]}
	}
}

// gobIsZero: the value is the zero value of its type (not transmitted by gob
// when it is a struct field).  A symbolic value counts as non-zero.
func gobIsZero(v value) bool {
	switch x := v.(type) {
	case nil:
		return true
	case bool:
		return !x
	case int:
		return x == 0
	case int8:
		return x == 0
	case int16:
		return x == 0
	case int32:
		return x == 0
	case int64:
		return x == 0
	case uint:
		return x == 0
	case uint8:
		return x == 0
	case uint16:
		return x == 0
	case uint32:
		return x == 0
	case uint64:
		return x == 0
	case uintptr:
		return x == 0
	case float64:
		return x == 0
	case string:
		return x == ""
	case symstr:
		return len(x.b) == 0
	case []value:
		return len(x) == 0
	case *omap:
		return x == nil || x.len() == 0
	case *value:
		return x == nil
	case iface:
		return x.t == nil
	case structure:
		for _, f := range x {
			if !gobIsZero(f) {
				return false
			}
		}
		return true
	case array:
		for _, f := range x {
			if !gobIsZero(f) {
				return false
			}
		}
		return true
	}
	return false
}

func gobMergeStruct(t types.Type, cur, nv value) value {
	cs, ok1 := cur.(structure)
	ns, ok2 := nv.(structure)
	if !ok1 || !ok2 || len(cs) != len(ns) {
		return nv
	}
	st := t.Underlying().(*types.Struct)
	out := make(structure, len(ns))
	for i := range ns {
		switch {
		case gobIsZero(ns[i]):
			out[i] = cs[i] // not transmitted: the destination keeps what it had
		default:
			if _, nested := st.Field(i).Type().Underlying().(*types.Struct); nested && st.Field(i).Type().String() != "time.Time" {
				out[i] = gobMergeStruct(st.Field(i).Type(), cs[i], ns[i])
			} else {
				out[i] = ns[i]
			}
		}
	}
	return out
}
