package main

// Intrinsics: functions the interpreter does not execute from SSA.
//  - the harness API (v* functions)
//  - exact models of small stdlib functions
//  - contract stubs of the environment (clock, randomness, sleeping)
//  - empty bodies (logging, JSON trace text)
// Every entry is part of the trusted base and is listed in the evidence.

import (
	"fmt"
	"go/types"
	"math"
	"math/bits"
	"os"
	"sort"
	"strconv"
	"strings"
	"unicode/utf8"

	"golang.org/x/tools/go/ssa"
)

type externalFn func(fr *frame, args []value) value

// Key strings are from Function.String().
var externals = map[string]externalFn{}

// externalsNoBody are consulted only when a function has no SSA body.
var externalsNoBody = map[string]externalFn{}

// externalsMethods: keyed like externals but may be closures/methods.
var externalsMethods = map[string]externalFn{}

// packages whose every function is an empty body returning zero values.
var stubbedPackages = map[string]bool{
	"github.com/jimsnab/go-lane": true,
	"log":                        true,
}

var usedIntrinsics = map[string]int{}

const hpkg = "github.com/jimsnab/go-redisemu."

func stubCall(fr *frame, fn *ssa.Function, args []value) value {
	usedIntrinsics["stub:"+fn.Package().Pkg.Path()]++
	sig := fn.Signature
	n := sig.Results().Len()
	mk := func(t types.Type) value {
		if _, ok := t.Underlying().(*types.Interface); ok {
			if nt, ok := t.(*types.Named); ok {
				return iface{t: nt, v: stubObject{nt.String()}}
			}
		}
		return zero(t)
	}
	switch n {
	case 0:
		return nil
	case 1:
		return mk(sig.Results().At(0).Type())
	}
	r := make(tuple, n)
	for i := range r {
		r[i] = mk(sig.Results().At(i).Type())
	}
	return r
}

func goString(v value) (string, bool) {
	s, ok := v.(string)
	return s, ok
}

func bytesOf(v value) ([]byte, bool) {
	s, ok := v.([]value)
	if !ok {
		return nil, false
	}
	out := make([]byte, len(s))
	for i, c := range s {
		b, ok := c.(uint8)
		if !ok {
			return nil, false
		}
		out[i] = b
	}
	return out, true
}

func bytesToValue(b []byte) []value {
	out := make([]value, len(b))
	for i, c := range b {
		out[i] = c
	}
	return out
}

func errValue(msg string) value {
	v := value(structure{msg})
	return iface{theInterp.errorStringType, &v}
}

// notHandled is returned by an intrinsic that declines (the SSA body runs).
var notHandled = &struct{ x int }{1}

func init() {
	for k, v := range map[string]externalFn{
		// ---------------- harness API ----------------
		hpkg + "vInt64":   func(fr *frame, a []value) value { return theEx.input(a[0], "int64", 64, fr, types.Typ[types.Int64]) },
		hpkg + "vInt":     func(fr *frame, a []value) value { return theEx.input(a[0], "int", 64, fr, types.Typ[types.Int]) },
		hpkg + "vUint64":  func(fr *frame, a []value) value { return theEx.input(a[0], "uint64", 64, fr, types.Typ[types.Uint64]) },
		hpkg + "vUint32":  func(fr *frame, a []value) value { return theEx.input(a[0], "uint32", 32, fr, types.Typ[types.Uint32]) },
		hpkg + "vInt32":   func(fr *frame, a []value) value { return theEx.input(a[0], "int32", 32, fr, types.Typ[types.Int32]) },
		hpkg + "vByte":    func(fr *frame, a []value) value { return theEx.input(a[0], "byte", 8, fr, types.Typ[types.Uint8]) },
		hpkg + "vBool":    func(fr *frame, a []value) value { return theEx.input(a[0], "bool", 0, fr, types.Typ[types.Bool]) },
		hpkg + "vBytes":   extVBytes,
		hpkg + "vBytesN":  extVBytesN,
		hpkg + "vString":  extVString,
		hpkg + "vStringN": extVStringN,
		hpkg + "vChoice":  extVChoice,
		hpkg + "vDecimal": extVDecimal,
		hpkg + "vAssume": func(fr *frame, a []value) value {
			theEx.assume(toTerm(a[0]))
			return nil
		},
		hpkg + "vAssert": func(fr *frame, a []value) value {
			label, _ := goString(a[0])
			theEx.curWhere = fr.i.prog.Fset.Position(fr.callpos).String()
			theEx.obligation(label, toTerm(a[1]), "assert", theEx.curWhere)
			return nil
		},
		hpkg + "vReach": func(fr *frame, a []value) value {
			label, _ := goString(a[0])
			theEx.reach(label, toTerm(a[1]))
			return nil
		},
		hpkg + "vRegion": func(fr *frame, a []value) value {
			label, _ := goString(a[0])
			theEx.regions[label] = toTerm(a[1])
			return nil
		},
		hpkg + "vObserve": func(fr *frame, a []value) value {
			label, _ := goString(a[0])
			theEx.observed = append(theEx.observed, Observation{label, a[1].(iface).v})
			return nil
		},
		hpkg + "vCatch":      extVCatch,
		hpkg + "vSymbolic":   func(fr *frame, a []value) value { return true },
		hpkg + "vIsConcrete": func(fr *frame, a []value) value { return !isSymbolic(a[0]) },
		hpkg + "vNote": func(fr *frame, a []value) value {
			if verbose {
				fmt.Fprintln(os.Stderr, "  note:", toString(a[0]))
			}
			return notHandled
		},
		hpkg + "vUnsupported": func(fr *frame, a []value) value {
			s, _ := goString(a[0])
			theEx.unsupported(s)
			return nil
		},
		hpkg + "vSetEnv": func(fr *frame, a []value) value {
			fn := a[0]
			theEx.envHook = func(point string) bool {
				r := call(fr.i, fr, fr.callpos, fn, []value{point})
				return r.(bool)
			}
			return notHandled
		},
		hpkg + "vRunPending": func(fr *frame, a []value) value {
			n := 0
			for len(fr.i.pendingGo) > 0 {
				p := fr.i.pendingGo[0]
				fr.i.pendingGo = fr.i.pendingGo[1:]
				call(fr.i, fr, p.pos, p.fn, p.args)
				n++
			}
			return n
		},
		hpkg + "vPendingCount": func(fr *frame, a []value) value { return len(fr.i.pendingGo) },
		hpkg + "vDropPending": func(fr *frame, a []value) value {
			fr.i.pendingGo = nil
			return nil
		},
		hpkg + "vSetNow":  extVSetNow,
		hpkg + "vBytesEq": extVBytesEq,
		hpkg + "vStrEq": func(fr *frame, a []value) value {
			return boolValue(symStrEq(a[0], a[1]))
		},
		hpkg + "vIte64": func(fr *frame, a []value) value {
			return fromTerm(types.Typ[types.Int64], mkIte(toTerm(a[0]), toTerm(a[1]), toTerm(a[2])))
		},
		hpkg + "vAnd": func(fr *frame, a []value) value { return boolValue(mkAnd(toTerm(a[0]), toTerm(a[1]))) },
		hpkg + "vOr":  func(fr *frame, a []value) value { return boolValue(mkOr(toTerm(a[0]), toTerm(a[1]))) },
		hpkg + "vImplies": func(fr *frame, a []value) value {
			return boolValue(mkOr(mkNot(toTerm(a[0])), toTerm(a[1])))
		},
		hpkg + "vIsDecimal": func(fr *frame, a []value) value {
			switch a[0].(type) {
			case decstr, *decbytes:
				return true
			}
			return false
		},
		hpkg + "vDecimalOf": func(fr *frame, a []value) value {
			switch d := a[0].(type) {
			case decstr:
				return fromTerm(types.Typ[types.Int64], d.x)
			case *decbytes:
				return fromTerm(types.Typ[types.Int64], d.x)
			}
			theEx.unsupported("vDecimalOf on non-decimal text")
			return nil
		},

		// ---------------- sync ----------------
		"(*sync.Mutex).Lock":      extMutexLock,
		"(*sync.Mutex).Unlock":    extMutexUnlock,
		"(*sync.Mutex).TryLock":   extMutexTryLock,
		"(*sync.RWMutex).Lock":    extMutexLock,
		"(*sync.RWMutex).Unlock":  extMutexUnlock,
		"(*sync.RWMutex).RLock":   extMutexLock,
		"(*sync.RWMutex).RUnlock": extMutexUnlock,
		"(*sync.WaitGroup).Add":   func(fr *frame, a []value) value { return nil },
		"(*sync.WaitGroup).Done":  func(fr *frame, a []value) value { return nil },
		"(*sync.WaitGroup).Wait":  func(fr *frame, a []value) value { return nil },
		"(*sync.Once).Do": func(fr *frame, a []value) value {
			st := (*a[0].(*value)).(structure)
			if done, _ := st[0].(bool); done {
				return nil
			}
			setCell(&st[0], true)
			call(fr.i, fr, fr.callpos, a[1], nil)
			return nil
		},

		"sync/atomic.AddInt32":             extAtomicAdd,
		"sync/atomic.AddInt64":             extAtomicAdd,
		"sync/atomic.AddUint32":            extAtomicAdd,
		"sync/atomic.AddUint64":            extAtomicAdd,
		"sync/atomic.LoadInt32":            extAtomicLoad,
		"sync/atomic.LoadInt64":            extAtomicLoad,
		"sync/atomic.LoadUint32":           extAtomicLoad,
		"sync/atomic.LoadUint64":           extAtomicLoad,
		"sync/atomic.StoreInt32":           extAtomicStore,
		"sync/atomic.StoreInt64":           extAtomicStore,
		"sync/atomic.StoreUint32":          extAtomicStore,
		"sync/atomic.StoreUint64":          extAtomicStore,
		"sync/atomic.SwapInt32":            extAtomicSwap,
		"sync/atomic.SwapInt64":            extAtomicSwap,
		"sync/atomic.SwapUint32":           extAtomicSwap,
		"sync/atomic.SwapUint64":           extAtomicSwap,
		"sync/atomic.CompareAndSwapInt32":  extAtomicCAS,
		"sync/atomic.CompareAndSwapInt64":  extAtomicCAS,
		"sync/atomic.CompareAndSwapUint32": extAtomicCAS,
		"sync/atomic.CompareAndSwapUint64": extAtomicCAS,

		// ---------------- time ----------------
		"time.Now":   extTimeNow,
		"time.Sleep": func(fr *frame, a []value) value { usedIntrinsics["time.Sleep(no-op)"]++; return nil },
		"time.now": func(fr *frame, a []value) value {
			return tuple{int64(theEx.nowSec), int32(0), int64(0)}
		},
		"time.runtimeNano": func(fr *frame, a []value) value { return int64(0) },
		"runtime.nanotime": func(fr *frame, a []value) value { return int64(0) },

		// ---------------- math/bits ----------------
		"math/bits.Reverse32":    extBitsReverse32,
		"math/bits.OnesCount8":   extBitsOnesCount8,
		"math/bits.RotateLeft64": extBitsRotateLeft64,
		"math/bits.Reverse8":     nil,

		// ---------------- math ----------------
		"math.Float64bits":     func(fr *frame, a []value) value { return math.Float64bits(a[0].(float64)) },
		"math.Float64frombits": func(fr *frame, a []value) value { return math.Float64frombits(a[0].(uint64)) },
		"math.Float32bits":     func(fr *frame, a []value) value { return math.Float32bits(a[0].(float32)) },
		"math.Float32frombits": func(fr *frame, a []value) value { return math.Float32frombits(a[0].(uint32)) },
		"math.Inf":             func(fr *frame, a []value) value { return math.Inf(a[0].(int)) },
		"math.IsNaN":           func(fr *frame, a []value) value { return math.IsNaN(a[0].(float64)) },
		"math.IsInf":           func(fr *frame, a []value) value { return math.IsInf(a[0].(float64), a[1].(int)) },
		"math.NaN":             func(fr *frame, a []value) value { return math.NaN() },
		"math.Abs":             func(fr *frame, a []value) value { return math.Abs(a[0].(float64)) },
		"math.Floor":           func(fr *frame, a []value) value { return math.Floor(a[0].(float64)) },
		"math.Pow":             func(fr *frame, a []value) value { return math.Pow(a[0].(float64), a[1].(float64)) },
		"math.Log":             func(fr *frame, a []value) value { return math.Log(a[0].(float64)) },
		"math.Sqrt":            func(fr *frame, a []value) value { return math.Sqrt(a[0].(float64)) },

		// ---------------- math/rand ----------------
		"math/rand.Intn": extRandIntn,
		"math/rand.Int":  func(fr *frame, a []value) value { return 4 },

		// ---------------- strconv / fmt / strings / bytes ----------------
		"strconv.ParseInt":    extParseInt,
		"strconv.Atoi":        extAtoi,
		"strconv.Itoa":        extItoa,
		"strconv.FormatInt":   extFormatInt,
		"strconv.ParseFloat":  extParseFloat,
		"strconv.FormatFloat": extFormatFloat,
		"fmt.Sprintf":         extSprintf,
		"fmt.Errorf": func(fr *frame, a []value) value {
			s := extSprintf(fr, a)
			if gs, ok := s.(string); ok {
				return errValue(gs)
			}
			return errValue("<symbolic error text>")
		},
		"fmt.Sprint":    extSprint,
		"fmt.Println":   func(fr *frame, a []value) value { return tuple{0, iface{}} },
		"fmt.Printf":    func(fr *frame, a []value) value { return tuple{0, iface{}} },
		"fmt.Print":     func(fr *frame, a []value) value { return tuple{0, iface{}} },
		"errors.New":    func(fr *frame, a []value) value { s, _ := goString(a[0]); return errValue(s) },
		"bytes.Equal":   extBytesEqual,
		"bytes.Compare": nil,

		"strings.ToLower":   extToLower,
		"strings.ToUpper":   extToUpper,
		"strings.EqualFold": extEqualFold,
		"strings.HasPrefix": extHasPrefix,
		"strings.HasSuffix": extHasSuffix,
		"strings.Index": func(fr *frame, a []value) value {
			s, ok1 := goString(a[0])
			t, ok2 := goString(a[1])
			if ok1 && ok2 {
				return strings.Index(s, t)
			}
			return notHandled
		},
		"strings.Contains": func(fr *frame, a []value) value {
			s, ok1 := goString(a[0])
			t, ok2 := goString(a[1])
			if ok1 && ok2 {
				return strings.Contains(s, t)
			}
			return notHandled
		},
		"strings.LastIndex": func(fr *frame, a []value) value {
			s, ok1 := goString(a[0])
			t, ok2 := goString(a[1])
			if ok1 && ok2 {
				return strings.LastIndex(s, t)
			}
			return notHandled
		},
		"strings.IndexByte": func(fr *frame, a []value) value {
			s, ok1 := goString(a[0])
			c, ok2 := a[1].(uint8)
			if ok1 && ok2 {
				return strings.IndexByte(s, c)
			}
			return notHandled
		},
		"strings.TrimSpace": func(fr *frame, a []value) value {
			if s, ok := goString(a[0]); ok {
				return strings.TrimSpace(s)
			}
			return notHandled
		},
		"strings.ReplaceAll": func(fr *frame, a []value) value {
			s, ok1 := goString(a[0])
			o, ok2 := goString(a[1])
			n, ok3 := goString(a[2])
			if ok1 && ok2 && ok3 {
				return strings.ReplaceAll(s, o, n)
			}
			return notHandled
		},
		"strings.Split": func(fr *frame, a []value) value {
			s, ok1 := goString(a[0])
			sep, ok2 := goString(a[1])
			if ok1 && ok2 {
				parts := strings.Split(s, sep)
				out := make([]value, len(parts))
				for i, p := range parts {
					out[i] = p
				}
				return out
			}
			return notHandled
		},
		"strings.Repeat": func(fr *frame, a []value) value {
			s, ok1 := goString(a[0])
			n, ok2 := a[1].(int)
			if ok1 && ok2 && n >= 0 && n < 1<<20 {
				return strings.Repeat(s, n)
			}
			return notHandled
		},
		"unicode/utf8.DecodeRuneInString": func(fr *frame, a []value) value {
			if s, ok := goString(a[0]); ok {
				r, n := utf8.DecodeRuneInString(s)
				return tuple{r, n}
			}
			return notHandled
		},
		"unicode/utf8.ValidString": func(fr *frame, a []value) value {
			if s, ok := goString(a[0]); ok {
				return utf8.ValidString(s)
			}
			return notHandled
		},
		"unicode/utf8.RuneCountInString": func(fr *frame, a []value) value {
			if s, ok := goString(a[0]); ok {
				return utf8.RuneCountInString(s)
			}
			return notHandled
		},

		"sort.Strings":     extSortStrings,
		"sort.Slice":       extSortSlice,
		"sort.SliceStable": extSortSlice,

		"encoding/json.Marshal":       func(fr *frame, a []value) value { return tuple{[]value(nil), iface{}} },
		"encoding/json.MarshalIndent": func(fr *frame, a []value) value { return tuple{[]value(nil), iface{}} },
		"context.Background": func(fr *frame, a []value) value {
			return iface{t: fr.fn.Signature.Results().At(0).Type(), v: stubObject{"context"}}
		},

		"runtime.GC":         func(fr *frame, a []value) value { return nil },
		"runtime.Gosched":    func(fr *frame, a []value) value { return nil },
		"runtime.GOMAXPROCS": func(fr *frame, a []value) value { return 1 },
		"runtime.NumCPU":     func(fr *frame, a []value) value { return 1 },
		"os.Getenv":          func(fr *frame, a []value) value { return "" },
		"os.Exit": func(fr *frame, a []value) value {
			theEx.abort("blocked", "os.Exit called")
			return nil
		},
	} {
		if v != nil {
			externals[k] = v
		}
	}
}

// ---------------------------------------------------------------------
// harness inputs

func (ex *Explorer) input(nameV value, kind string, w int, fr *frame, t types.Type) value {
	name, _ := goString(nameV)
	v := ex.freshVar(name, w)
	ex.inputs = append(ex.inputs, InputRec{v.name, kind, w})
	if c, ok := pinnedInputs[v.name]; ok {
		// debugging aid (GOSYM_PIN="name=value,..."): the input is fixed
		return fromTerm(t, mkConst(w, c))
	}
	return &Sym{v}
}

var pinnedInputs = func() map[string]uint64 {
	m := map[string]uint64{}
	for _, kv := range strings.Split(os.Getenv("GOSYM_PIN"), ",") {
		if i := strings.Index(kv, "="); i > 0 {
			n, _ := strconv.ParseUint(kv[i+1:], 10, 64)
			m[kv[:i]] = n
		}
	}
	return m
}()

func symBytes(name string, maxLen int, exact bool) []value {
	ex := theEx
	base := ex.freshName(name)
	n := maxLen
	if !exact {
		lv := mkVar(base+".len", 8)
		ex.inputs = append(ex.inputs, InputRec{lv.name, "len", 8})
		ex.assume(mkCmp(OpUle, lv, mkConst(8, uint64(maxLen))))
		n = int(ex.concretize(lv, 0, int64(maxLen), "len:"+name))
	}
	out := make([]value, n)
	for i := 0; i < n; i++ {
		cv := mkVar(fmt.Sprintf("%s[%d]", base, i), 8)
		ex.inputs = append(ex.inputs, InputRec{cv.name, "byte", 8})
		out[i] = &Sym{cv}
	}
	return out
}

func extVBytes(fr *frame, a []value) value {
	name, _ := goString(a[0])
	return symBytes(name, a[1].(int), false)
}

func extVBytesN(fr *frame, a []value) value {
	name, _ := goString(a[0])
	return symBytes(name, a[1].(int), true)
}

func extVString(fr *frame, a []value) value {
	name, _ := goString(a[0])
	return normStr(symBytes(name, a[1].(int), false))
}

func extVStringN(fr *frame, a []value) value {
	name, _ := goString(a[0])
	return normStr(symBytes(name, a[1].(int), true))
}

func extVChoice(fr *frame, a []value) value {
	name, _ := goString(a[0])
	n := a[1].(int)
	if n <= 1 {
		return 0
	}
	v := theEx.freshVar(name, 8)
	theEx.inputs = append(theEx.inputs, InputRec{v.name, "choice", 8})
	if c, ok := pinnedInputs[v.name]; ok {
		theEx.assume(mkEq(v, mkConst(8, c)))
	}
	theEx.assume(mkCmp(OpUlt, v, mkConst(8, uint64(n))))
	return int(theEx.concretize(v, 0, int64(n-1), "choice:"+name))
}

// vDecimal(name) returns the canonical decimal text of a fresh int64.
func extVDecimal(fr *frame, a []value) value {
	name, _ := goString(a[0])
	v := theEx.freshVar(name, 64)
	theEx.inputs = append(theEx.inputs, InputRec{v.name, "decimal", 64})
	if c, ok := pinnedInputs[v.name]; ok {
		theEx.assume(mkEq(v, mkConst(64, c)))
	}
	return decstr{v}
}

// vCatch(f) runs f and reports whether it panicked (with the message).
func extVCatch(fr *frame, a []value) (res value) {
	theEx.catchDepth++
	defer func() {
		theEx.catchDepth--
		r := recover()
		if r == nil {
			return
		}
		if tp, ok := r.(targetPanic); ok {
			res = tuple{true, panicText(tp.v)}
			return
		}
		panic(r)
	}()
	call(fr.i, fr, fr.callpos, a[0], nil)
	return tuple{false, ""}
}

func extVBytesEq(fr *frame, a []value) value {
	x, ok1 := a[0].([]value)
	y, ok2 := a[1].([]value)
	if !ok1 || !ok2 {
		dx, okx := a[0].(*decbytes)
		dy, oky := a[1].(*decbytes)
		if okx && oky {
			return boolValue(mkEq(dx.x, dy.x))
		}
		if okx {
			return boolValue(symStrEq(decstr{dx.x}, normStr(y)))
		}
		if oky {
			return boolValue(symStrEq(decstr{dy.x}, normStr(x)))
		}
	}
	if len(x) != len(y) {
		return false
	}
	cs := []*Term{}
	for i := range x {
		cs = append(cs, mkEq(byteTerm(x[i]), byteTerm(y[i])))
	}
	return boolValue(mkAnd(cs...))
}

// ---------------------------------------------------------------------
// sync

func mutexState(p value) *value {
	ptr := p.(*value)
	if ptr == nil {
		nilDeref()
	}
	st := (*ptr).(structure)
	return &st[0]
}

type lockEvent struct {
	mu    *value
	lock  bool
	where string
}

func extMutexLock(fr *frame, a []value) value {
	cell := mutexState(a[0])
	if held, _ := (*cell).(mutexHeld); bool(held) {
		if theEx.env("mutex") {
			if h2, _ := (*cell).(mutexHeld); !bool(h2) {
				setCell(cell, mutexHeld(true))
				return nil
			}
		}
		theEx.lockFault("self-deadlock: Lock of a mutex already held", fr)
		theEx.blocked("mutex already locked")
	}
	setCell(cell, mutexHeld(true))
	if theEx.onLock != nil {
		theEx.onLock(a[0].(*value), true, fr)
	}
	return nil
}

func extMutexTryLock(fr *frame, a []value) value {
	cell := mutexState(a[0])
	if held, _ := (*cell).(mutexHeld); bool(held) {
		return false
	}
	setCell(cell, mutexHeld(true))
	return true
}

func extMutexUnlock(fr *frame, a []value) value {
	cell := mutexState(a[0])
	if held, _ := (*cell).(mutexHeld); !bool(held) {
		panic(targetPanic{runtimeErr("sync: unlock of unlocked mutex")})
	}
	setCell(cell, mutexHeld(false))
	if theEx.onLock != nil {
		theEx.onLock(a[0].(*value), false, fr)
	}
	return nil
}

type mutexHeld bool

func atomicCell(p value) *value {
	ptr, ok := p.(*value)
	if !ok {
		theEx.unsupported("atomic operation through symbolic address")
	}
	if ptr == nil {
		nilDeref()
	}
	return ptr
}

func extAtomicAdd(fr *frame, a []value) value {
	p := atomicCell(a[0])
	t := fr.fn.Signature.Params().At(1).Type()
	nv := fromTerm(t, mkBin(OpAdd, toTerm(*p), toTerm(a[1])))
	setCell(p, nv)
	return nv
}

func extAtomicLoad(fr *frame, a []value) value { return *atomicCell(a[0]) }

func extAtomicStore(fr *frame, a []value) value {
	setCell(atomicCell(a[0]), a[1])
	return nil
}

func extAtomicSwap(fr *frame, a []value) value {
	p := atomicCell(a[0])
	old := *p
	setCell(p, a[1])
	return old
}

func extAtomicCAS(fr *frame, a []value) value {
	p := atomicCell(a[0])
	c := mkEq(toTerm(*p), toTerm(a[1]))
	if theEx.decide(c, "cas") {
		setCell(p, a[2])
		return true
	}
	return false
}

// ---------------------------------------------------------------------
// time: the wall clock is a harness-controlled instant.  time.Time keeps
// its stdlib layout {wall uint64, ext int64, loc *Location}; with the
// monotonic bit clear, wall holds nanoseconds and ext seconds since year 1.

const unixToInternal int64 = (1969*365 + 1969/4 - 1969/100 + 1969/400) * 86400

func extTimeNow(fr *frame, a []value) value {
	usedIntrinsics["time.Now(harness clock)"]++
	ex := theEx
	var sec, nsec value
	if ex.nowSym != nil {
		sec = ex.nowSym()
		nsec = uint64(0)
		if ex.nowNsec != nil {
			nsec = ex.nowNsec()
		}
	} else {
		sec = int64(ex.nowSec) + unixToInternal
		nsec = uint64(ex.nowNs)
	}
	return structure{nsec, sec, theInterp.localLoc()}
}

func (i *interpreter) localLoc() value {
	// &time.localLoc: Now() returns Local times.
	if g, ok := i.prog.ImportedPackage("time").Members["localLoc"].(*ssa.Global); ok {
		return i.globalAddr(g)
	}
	return (*value)(nil)
}

// vSetNow(unixSec int64, nsec int64) fixes the clock for subsequent Now()s.
func extVSetNow(fr *frame, a []value) value {
	ex := theEx
	secV, nsV := a[0], a[1]
	if s, ok := secV.(*Sym); ok {
		t := mkBin(OpAdd, s.t, mkConst(64, uint64(unixToInternal)))
		ex.nowSym = func() value { return &Sym{t} }
	} else {
		ex.nowSym = nil
		ex.nowSec = asInt64(secV)
	}
	if s, ok := nsV.(*Sym); ok {
		t := s.t
		ex.nowNsec = func() value { return &Sym{t} }
		if ex.nowSym == nil {
			sec := int64(ex.nowSec) + unixToInternal
			ex.nowSym = func() value { return sec }
		}
	} else {
		ex.nowNsec = nil
		ex.nowNs = asInt64(nsV)
		if ex.nowSym != nil && ex.nowNs != 0 {
			ns := uint64(ex.nowNs)
			ex.nowNsec = func() value { return ns }
		}
	}
	return nil
}

// ---------------------------------------------------------------------
// math/bits

func extBitsReverse32(fr *frame, a []value) value {
	if s, ok := a[0].(*Sym); ok {
		var r *Term
		for i := 0; i < 32; i++ {
			b := mkExtract(s.t, i, i)
			if r == nil {
				r = b
			} else {
				r = mkConcat(r, b)
			}
		}
		return &Sym{r}
	}
	return bits.Reverse32(a[0].(uint32))
}

func extBitsOnesCount8(fr *frame, a []value) value {
	if s, ok := a[0].(*Sym); ok {
		acc := mkConst(64, 0)
		for i := 0; i < 8; i++ {
			acc = mkBin(OpAdd, acc, mkZExt(mkExtract(s.t, i, i), 64))
		}
		return &Sym{acc}
	}
	return bits.OnesCount8(a[0].(uint8))
}

func extBitsRotateLeft64(fr *frame, a []value) value {
	_, s1 := a[0].(*Sym)
	_, s2 := a[1].(*Sym)
	if s1 || s2 {
		x := toTerm(a[0])
		k := mkBin(OpAnd, toTerm(a[1]), mkConst(64, 63))
		l := mkBin(OpShl, x, k)
		r := mkBin(OpLShr, x, mkBin(OpAnd, mkBin(OpSub, mkConst(64, 64), k), mkConst(64, 63)))
		// k==0: r would be x>>0 = x; or with l = x|x = x: fine
		return &Sym{mkIte(mkEq(k, mkConst(64, 0)), x, mkBin(OpOr, l, r))}
	}
	return bits.RotateLeft64(a[0].(uint64), a[1].(int))
}

// ---------------------------------------------------------------------
// math/rand: an adversarial oracle.  Intn(n) returns any value in [0,n).

func extRandIntn(fr *frame, a []value) value {
	usedIntrinsics["math/rand.Intn(round-robin from an arbitrary start)"]++
	n, ok := a[0].(int)
	if !ok {
		theEx.unsupported("rand.Intn with symbolic bound")
	}
	if n <= 0 {
		panic(targetPanic{"invalid argument to Intn"})
	}
	ex := theEx
	if !ex.randStarted {
		ex.randStarted = true
		v := ex.freshVar("$rand.start", 16)
		ex.inputs = append(ex.inputs, InputRec{v.name, "rand", 16})
		ex.assume(mkCmp(OpUlt, v, mkConst(16, uint64(n))))
		ex.randNext = int(ex.concretize(v, 0, int64(n-1), "rand"))
	}
	r := ex.randNext % n
	ex.randNext++
	return r
}

// ---------------------------------------------------------------------
// strconv

func extParseInt(fr *frame, a []value) value {
	base, _ := a[1].(int)
	bitSize, _ := a[2].(int)
	if ss, ok := a[0].(symstr); ok {
		// exactly the digit bytes of an expanded decimal text: that number again
		if x, ok := decOriginOf(ss.b); ok {
			a[0] = decstr{x}
		}
	}
	switch s := a[0].(type) {
	case string:
		n, err := strconv.ParseInt(s, base, bitSize)
		if err != nil {
			return tuple{n, errValue(err.Error())}
		}
		return tuple{n, iface{}}
	case decstr:
		if base == 10 && bitSize == 64 {
			return tuple{fromTerm(types.Typ[types.Int64], s.x), iface{}}
		}
		if base == 10 && bitSize == 32 {
			fits := mkEq(mkSExt(mkExtract(s.x, 31, 0), 64), s.x)
			if theEx.decide(fits, "parseint32") {
				return tuple{fromTerm(types.Typ[types.Int64], s.x), iface{}}
			}
			return tuple{int64(0), errValue("strconv.ParseInt: value out of range")}
		}
	}
	return notHandled // interpret the stdlib body
}

func extAtoi(fr *frame, a []value) value {
	switch s := a[0].(type) {
	case string:
		n, err := strconv.Atoi(s)
		if err != nil {
			return tuple{n, errValue(err.Error())}
		}
		return tuple{n, iface{}}
	case decstr:
		return tuple{fromTerm(types.Typ[types.Int], s.x), iface{}}
	}
	return notHandled
}

func extItoa(fr *frame, a []value) value {
	if s, ok := a[0].(*Sym); ok {
		return decstr{s.t}
	}
	return strconv.Itoa(a[0].(int))
}

func extFormatInt(fr *frame, a []value) value {
	base, _ := a[1].(int)
	if s, ok := a[0].(*Sym); ok {
		if base != 10 {
			theEx.unsupported("FormatInt of symbolic value in base != 10")
		}
		return decstr{s.t}
	}
	return strconv.FormatInt(a[0].(int64), base)
}

func extParseFloat(fr *frame, a []value) value {
	if s, ok := goString(a[0]); ok {
		f, err := strconv.ParseFloat(s, a[1].(int))
		if err != nil {
			return tuple{f, errValue(err.Error())}
		}
		return tuple{f, iface{}}
	}
	if d, ok := a[0].(decstr); ok {
		_ = d
		theEx.unsupported("ParseFloat of opaque decimal text")
	}
	theEx.unsupported("ParseFloat of symbolic text")
	return nil
}

func extFormatFloat(fr *frame, a []value) value {
	return strconv.FormatFloat(a[0].(float64), a[1].(byte), a[2].(int), a[3].(int))
}

// ---------------------------------------------------------------------
// fmt

// stringOfArg renders an fmt argument for %v / %s.
func stringOfArg(fr *frame, arg value, verb byte) value {
	it, isIface := arg.(iface)
	if !isIface {
		return fmt.Sprint(arg)
	}
	if it.t == nil {
		if verb == 's' {
			return "%!s(<nil>)"
		}
		return "<nil>"
	}
	// error / Stringer
	if verb == 'v' || verb == 's' || verb == 'q' {
		for _, mname := range []string{"Error", "String"} {
			ms := fr.i.prog.MethodSets.MethodSet(it.t)
			for k := 0; k < ms.Len(); k++ {
				sel := ms.At(k)
				if sel.Obj().Name() == mname {
					sig := sel.Type().(*types.Signature)
					if sig.Params().Len() == 0 && sig.Results().Len() == 1 && isString(sig.Results().At(0).Type()) {
						if _, isStub := it.v.(stubObject); isStub {
							return "<stub>"
						}
						m := fr.i.prog.MethodValue(sel)
						if m != nil {
							return call(fr.i, fr, fr.callpos, m, []value{it.v})
						}
					}
				}
			}
		}
	}
	switch v := it.v.(type) {
	case string:
		return v
	case symstr, decstr:
		return v
	case *Sym:
		if v.t.w == 0 {
			theEx.unsupported("formatting of symbolic bool")
		}
		_, signed, _ := intInfo(it.t)
		if v.t.w == 64 && signed {
			return decstr{v.t}
		}
		if signed {
			return decstr{mkSExt(v.t, 64)}
		}
		if v.t.w < 64 {
			return decstr{mkZExt(v.t, 64)}
		}
		theEx.unsupported("formatting of symbolic uint64")
	case bool, int, int8, int16, int32, int64, uint, uint8, uint16, uint32, uint64, uintptr, float32, float64:
		return fmt.Sprint(v)
	case []value:
		if sl, isSl := it.t.Underlying().(*types.Slice); isSl && verb == 's' {
			if eb, ok := sl.Elem().Underlying().(*types.Basic); ok && eb.Kind() == types.Uint8 {
				return normStr(v)
			}
		}
		if b, ok := bytesOf(v); ok {
			if _, isBytes := it.t.Underlying().(*types.Slice); isBytes {
				if verb == 's' {
					return string(b)
				}
				return fmt.Sprint(b)
			}
		}
		var parts []string
		for _, e := range v {
			s, ok := stringOfArg(fr, ifaceWrap(e, it.t), 'v').(string)
			if !ok {
				theEx.unsupported("formatting of slice with symbolic elements")
			}
			parts = append(parts, s)
		}
		return "[" + strings.Join(parts, " ") + "]"
	case *value:
		return fmt.Sprintf("%p", v)
	case structure:
		return toString(v)
	}
	return toString(it.v)
}

func ifaceWrap(e value, sliceT types.Type) value {
	if it, ok := e.(iface); ok {
		return it
	}
	if s, ok := sliceT.Underlying().(*types.Slice); ok {
		return iface{t: s.Elem(), v: e}
	}
	return iface{t: types.Typ[types.Int], v: e}
}

func nativeOf(v value) (interface{}, bool) {
	switch x := v.(type) {
	case bool, int, int8, int16, int32, int64, uint, uint8, uint16, uint32, uint64, uintptr, float32, float64, string:
		return x, true
	case []value:
		if b, ok := bytesOf(x); ok {
			return b, true
		}
	}
	return nil, false
}

func extSprintf(fr *frame, a []value) value {
	format, ok := goString(a[0])
	if !ok {
		theEx.unsupported("Sprintf with symbolic format")
	}
	var args []value
	if a[1] != nil {
		args = a[1].([]value)
	}
	var pieces []value
	argi := 0
	i := 0
	lit := func(s string) {
		if s != "" {
			pieces = append(pieces, s)
		}
	}
	for i < len(format) {
		j := strings.IndexByte(format[i:], '%')
		if j < 0 {
			lit(format[i:])
			break
		}
		lit(format[i : i+j])
		i += j
		// parse verb
		k := i + 1
		for k < len(format) && strings.IndexByte("+-# 0123456789.*", format[k]) >= 0 {
			k++
		}
		if k >= len(format) {
			lit(format[i:])
			break
		}
		verb := format[k]
		spec := format[i : k+1]
		i = k + 1
		if verb == '%' {
			lit("%")
			continue
		}
		if argi >= len(args) {
			lit("%!" + string(verb) + "(MISSING)")
			continue
		}
		arg := args[argi]
		argi++
		plain := len(spec) == 2
		switch verb {
		case 'T':
			it := arg.(iface)
			if it.t == nil {
				lit("<nil>")
			} else {
				lit(types.TypeString(it.t, func(p *types.Package) string { return p.Name() }))
			}
			continue
		case 'v', 's':
			s := stringOfArg(fr, arg, verb)
			if gs, ok := s.(string); ok {
				if plain {
					lit(gs)
				} else {
					lit(fmt.Sprintf(strings.Replace(spec, "v", "s", 1), gs))
				}
			} else {
				if !plain {
					theEx.unsupported("Sprintf width/precision on symbolic text")
				}
				pieces = append(pieces, s)
			}
			continue
		case 'd':
			it, _ := arg.(iface)
			if sv, ok := it.v.(*Sym); ok {
				if !plain {
					theEx.unsupported("Sprintf %d flags on symbolic integer")
				}
				pieces = append(pieces, stringOfArg(fr, iface{t: it.t, v: sv}, 'v'))
				continue
			}
		}
		it, _ := arg.(iface)
		nv, ok := nativeOf(it.v)
		if !ok {
			if s, isStr := stringOfArg(fr, arg, 'v').(string); isStr && (verb == 'q') {
				lit(fmt.Sprintf(spec, s))
				continue
			}
			theEx.unsupported(fmt.Sprintf("Sprintf verb %s on %T", spec, it.v))
		}
		lit(fmt.Sprintf(spec, nv))
	}
	return joinPieces(pieces)
}

func joinPieces(pieces []value) value {
	var acc value = ""
	for _, p := range pieces {
		acc = concatStr(acc, p)
	}
	return acc
}

func extSprint(fr *frame, a []value) value {
	var pieces []value
	if a[0] != nil {
		for _, arg := range a[0].([]value) {
			pieces = append(pieces, stringOfArg(fr, arg, 'v'))
		}
	}
	return joinPieces(pieces)
}

// ---------------------------------------------------------------------
// strings / bytes with symbolic bytes (ASCII only; a non-ASCII byte is a
// stated unsupported region)

func extBytesEqual(fr *frame, a []value) value {
	return extVBytesEq(fr, a)
}

func requireASCII(cells []value, what string) {
	for _, c := range cells {
		switch c := c.(type) {
		case uint8:
			if c >= 0x80 {
				theEx.unsupported(what + " on symbolic text with non-ASCII byte")
			}
		case *Sym:
			if !theEx.decide(mkCmp(OpUlt, c.t, mkConst(8, 0x80)), "ascii") {
				theEx.unsupported(what + " on symbolic text with non-ASCII byte")
			}
		}
	}
}

func lowerTerm(b *Term) *Term {
	isUp := mkAnd(mkCmp(OpUle, mkConst(8, 'A'), b), mkCmp(OpUle, b, mkConst(8, 'Z')))
	return mkIte(isUp, mkBin(OpAdd, b, mkConst(8, 32)), b)
}

func upperTerm(b *Term) *Term {
	isLo := mkAnd(mkCmp(OpUle, mkConst(8, 'a'), b), mkCmp(OpUle, b, mkConst(8, 'z')))
	return mkIte(isLo, mkBin(OpSub, b, mkConst(8, 32)), b)
}

func extToLower(fr *frame, a []value) value {
	switch s := a[0].(type) {
	case string:
		return strings.ToLower(s)
	case symstr:
		requireASCII(s.b, "strings.ToLower")
		out := make([]value, len(s.b))
		for i, c := range s.b {
			out[i] = fromTerm(types.Typ[types.Uint8], lowerTerm(byteTerm(c)))
		}
		return normStr(out)
	case decstr:
		return s
	}
	return notHandled
}

func extToUpper(fr *frame, a []value) value {
	switch s := a[0].(type) {
	case string:
		return strings.ToUpper(s)
	case symstr:
		requireASCII(s.b, "strings.ToUpper")
		out := make([]value, len(s.b))
		for i, c := range s.b {
			out[i] = fromTerm(types.Typ[types.Uint8], upperTerm(byteTerm(c)))
		}
		return normStr(out)
	case decstr:
		return s
	}
	return notHandled
}

func isASCIIString(s string) bool {
	for i := 0; i < len(s); i++ {
		if s[i] >= 0x80 {
			return false
		}
	}
	return true
}

func extEqualFold(fr *frame, a []value) value {
	s, ok1 := goString(a[0])
	t, ok2 := goString(a[1])
	if ok1 && ok2 {
		return strings.EqualFold(s, t)
	}
	for k := 0; k < 2; k++ {
		if d, ok := a[k].(decstr); ok {
			other := a[1-k]
			if os, ok := other.(string); ok {
				// decimal text has no letters: fold-equal iff equal
				return boolValue(symStrEq(d, os))
			}
			theEx.unsupported("EqualFold of decimal text with symbolic text")
		}
	}
	xc, _ := strCells(a[0])
	yc, _ := strCells(a[1])
	// lengths in bytes can differ for fold-equal strings only with
	// non-ASCII; with one side concrete ASCII and the other symbolic we
	// require ASCII on the symbolic side for length-equal candidates.
	if ok1 && !isASCIIString(s) || ok2 && !isASCIIString(t) {
		theEx.unsupported("EqualFold with non-ASCII concrete text and symbolic text")
	}
	if len(xc) != len(yc) {
		// a symbolic string containing K (U+212A) or ſ (U+017F) could still
		// fold-match a shorter ASCII string; that needs non-ASCII bytes.
		if !ok1 {
			requireASCII(xc, "strings.EqualFold")
		}
		if !ok2 {
			requireASCII(yc, "strings.EqualFold")
		}
		return false
	}
	if !ok1 {
		requireASCII(xc, "strings.EqualFold")
	}
	if !ok2 {
		requireASCII(yc, "strings.EqualFold")
	}
	cs := []*Term{}
	for i := range xc {
		cs = append(cs, mkEq(lowerTerm(byteTerm(xc[i])), lowerTerm(byteTerm(yc[i]))))
	}
	return boolValue(mkAnd(cs...))
}

func extHasPrefix(fr *frame, a []value) value {
	s, ok1 := goString(a[0])
	t, ok2 := goString(a[1])
	if ok1 && ok2 {
		return strings.HasPrefix(s, t)
	}
	if d, isDec := a[0].(decstr); isDec && ok2 {
		// the canonical decimal text of a number starts with '-' or a digit
		if t == "" {
			return true
		}
		if c := t[0]; c != '-' && (c < '0' || c > '9') {
			return false
		}
		a[0] = symstr{expandDec(d.x)}
	}
	xc, okx := strCells(a[0])
	yc, oky := strCells(a[1])
	if !okx || !oky {
		theEx.unsupported("HasPrefix on opaque text")
	}
	if len(yc) > len(xc) {
		return false
	}
	return boolValue(symStrEq(normStr(xc[:len(yc)]), normStr(yc)))
}

func extHasSuffix(fr *frame, a []value) value {
	s, ok1 := goString(a[0])
	t, ok2 := goString(a[1])
	if ok1 && ok2 {
		return strings.HasSuffix(s, t)
	}
	xc, okx := strCells(a[0])
	yc, oky := strCells(a[1])
	if !okx || !oky {
		theEx.unsupported("HasSuffix on opaque text")
	}
	if len(yc) > len(xc) {
		return false
	}
	return boolValue(symStrEq(normStr(xc[len(xc)-len(yc):]), normStr(yc)))
}

// ---------------------------------------------------------------------
// sort: insertion sort through the real less function (stable, so it
// also serves SliceStable); deterministic.

func extSortStrings(fr *frame, a []value) value {
	x := a[0].([]value)
	allConc := true
	for _, e := range x {
		if _, ok := e.(string); !ok {
			allConc = false
		}
	}
	if allConc {
		ss := make([]string, len(x))
		for i, e := range x {
			ss[i] = e.(string)
		}
		sort.Strings(ss)
		for i := range x {
			setCell(&x[i], ss[i])
		}
		return nil
	}
	for i := 1; i < len(x); i++ {
		for j := i; j > 0; j-- {
			lt := strLess(x[j], x[j-1], false)
			if !theEx.decide(lt, "sort") {
				break
			}
			tmp := x[j]
			setCell(&x[j], x[j-1])
			setCell(&x[j-1], tmp)
		}
	}
	return nil
}

func extSortSlice(fr *frame, a []value) value {
	it := a[0].(iface)
	x, ok := it.v.([]value)
	if !ok {
		theEx.unsupported("sort.Slice on non-slice")
	}
	less := a[1]
	for i := 1; i < len(x); i++ {
		for j := i; j > 0; j-- {
			r := call(fr.i, fr, fr.callpos, less, []value{j, j - 1})
			var lt bool
			switch r := r.(type) {
			case bool:
				lt = r
			case *Sym:
				lt = theEx.decide(r.t, "sort")
			}
			if !lt {
				break
			}
			tmp := copyVal(x[j])
			setCell(&x[j], copyVal(x[j-1]))
			setCell(&x[j-1], tmp)
		}
	}
	return nil
}
