// Portions derived from golang.org/x/tools/go/ssa/interp (BSD-style
// license, Copyright 2013 The Go Authors).

package main

// Values
//
// All interpreter values are "boxed" in the empty interface, value.
// Concrete kinds follow x/tools' ssa/interp:
//
// - bool, numbers, string
// - *omap            --- maps (insertion ordered, deterministic)
// - *gchan           --- channels (single threaded model)
// - []value          --- slices
// - iface            --- interfaces
// - structure, array --- aggregates
// - *value           --- pointers
// - *ssa.Function, *ssa.Builtin, *closure --- functions
// - tuple, iter, bad
//
// Symbolic kinds added here:
//
// - *Sym      --- integer or boolean SMT term
// - symstr    --- string whose bytes may be symbolic (concrete length)
// - decstr    --- the canonical decimal text of a 64-bit term (opaque)
// - *decbytes --- []byte holding such a text (opaque)
// - symaddr   --- pointer into a slice/array at a symbolic index

import (
	"bytes"
	"fmt"
	"go/types"
	"sort"
	"strings"
	"unicode/utf8"

	"golang.org/x/tools/go/ssa"
)

type value interface{}

type tuple []value

type array []value

type iface struct {
	t types.Type // never an "untyped" type
	v value
}

type structure []value

type iter interface {
	next() tuple
}

type closure struct {
	Fn  *ssa.Function
	Env []value
}

type bad struct{}

// Sym is a symbolic integer (w>0) or boolean (w==0).
type Sym struct {
	t *Term
}

// symstr is a string of concrete length whose bytes are uint8 or *Sym(8).
type symstr struct {
	b []value
}

// decstr is strconv.FormatInt(x, 10) for the signed 64-bit term x.
type decstr struct {
	x *Term
}

// decbytes is []byte(decstr).
type decbytes struct {
	x *Term
}

// symaddr is &base[idx] for a symbolic idx (in bounds by obligation).
type symaddr struct {
	base []value
	idx  *Term // 64-bit
}

func isSymbolic(v value) bool {
	switch v := v.(type) {
	case *Sym, symstr, decstr, *decbytes, symaddr:
		return true
	case iface:
		return isSymbolic(v.v)
	case structure:
		for _, e := range v {
			if isSymbolic(e) {
				return true
			}
		}
	case array:
		for _, e := range v {
			if isSymbolic(e) {
				return true
			}
		}
	}
	return false
}

// ---------------------------------------------------------------------
// Trail: undo log of heap mutations so that each path starts from the
// post-setup state.

type trailEntry struct {
	addr *value
	old  value
	undo func()
}

var (
	trail   []trailEntry
	trailOn bool
)

func setCell(addr *value, v value) {
	if trailOn {
		trail = append(trail, trailEntry{addr: addr, old: *addr})
	}
	*addr = v
}

func trailUndo(f func()) {
	if trailOn {
		trail = append(trail, trailEntry{undo: f})
	}
}

func trailRollback(mark int) {
	for i := len(trail) - 1; i >= mark; i-- {
		e := trail[i]
		if e.undo != nil {
			e.undo()
		} else {
			*e.addr = e.old
		}
	}
	trail = trail[:mark]
}

// ---------------------------------------------------------------------
// Ordered maps

type mapEntry struct {
	key     value
	val     value
	ks      string // canonical key string when concrete
	conc    bool
	deleted bool
}

type omap struct {
	keyType types.Type
	ents    []*mapEntry
	idx     map[string]*mapEntry
	live    int
	nsym    int // number of live entries with symbolic keys
}

func makeMap(kt types.Type, reserve int64) *omap {
	return &omap{keyType: kt, idx: map[string]*mapEntry{}}
}

// keyString renders a canonical string for a fully concrete key.
func keyString(v value, sb *strings.Builder) bool {
	switch v := v.(type) {
	case bool, int, int8, int16, int32, int64, uint, uint8, uint16, uint32, uint64, uintptr:
		fmt.Fprintf(sb, "%T:%v;", v, v)
	case float32, float64, complex64, complex128:
		fmt.Fprintf(sb, "%T:%v;", v, v)
	case string:
		fmt.Fprintf(sb, "s%d:%s;", len(v), v)
	case *value:
		fmt.Fprintf(sb, "p%p;", v)
	case *gchan:
		fmt.Fprintf(sb, "c%p;", v)
	case iface:
		if v.t == nil {
			sb.WriteString("nil;")
			return true
		}
		switch v.t.Underlying().(type) {
		case *types.Slice, *types.Map, *types.Signature:
			panic(targetPanic{runtimeErr("hash of unhashable type " + v.t.String())})
		}
		sb.WriteString("i<")
		sb.WriteString(v.t.String())
		sb.WriteString(">")
		return keyString(v.v, sb)
	case structure:
		sb.WriteString("{")
		for _, e := range v {
			if !keyString(e, sb) {
				return false
			}
		}
		sb.WriteString("}")
	case array:
		sb.WriteString("[")
		for _, e := range v {
			if !keyString(e, sb) {
				return false
			}
		}
		sb.WriteString("]")
	case *Sym, symstr, decstr:
		return false
	case []value, *omap, *closure, *ssa.Function:
		panic(targetPanic{runtimeErr("hash of unhashable type")})
	default:
		panic(fmt.Sprintf("keyString: unexpected %T", v))
	}
	return true
}

func keyOf(v value) (string, bool) {
	var sb strings.Builder
	ok := keyString(v, &sb)
	return sb.String(), ok
}

// find returns the entry whose key equals k, forking on symbolic equality.
func (m *omap) find(k value) *mapEntry {
	if m == nil {
		// still validate hashability
		keyOf(k)
		return nil
	}
	ks, conc := keyOf(k)
	if conc {
		if e := m.idx[ks]; e != nil {
			return e
		}
		if m.nsym == 0 {
			return nil
		}
	}
	for _, e := range m.ents {
		if e.deleted || (conc && e.conc) {
			continue
		}
		c := symEquals(m.keyType, k, e.key)
		if c.op == OpConst {
			if c.val != 0 {
				return e
			}
			continue
		}
		if theEx.decide(c, "mapkey") {
			return e
		}
	}
	return nil
}

func (m *omap) lookup(k value) (value, bool) {
	e := m.find(k)
	if e == nil {
		return nil, false
	}
	return e.val, true
}

func (m *omap) insert(k, v value) {
	if e := m.find(k); e != nil {
		old := e.val
		trailUndo(func() { e.val = old })
		e.val = v
		return
	}
	ks, conc := keyOf(k)
	e := &mapEntry{key: k, val: v, ks: ks, conc: conc}
	m.ents = append(m.ents, e)
	if conc {
		m.idx[ks] = e
	} else {
		m.nsym++
	}
	m.live++
	trailUndo(func() {
		m.ents = m.ents[:len(m.ents)-1]
		if conc {
			delete(m.idx, ks)
		} else {
			m.nsym--
		}
		m.live--
	})
}

func (m *omap) delete(k value) {
	if m == nil {
		return
	}
	e := m.find(k)
	if e == nil {
		return
	}
	e.deleted = true
	if e.conc {
		delete(m.idx, e.ks)
	} else {
		m.nsym--
	}
	m.live--
	trailUndo(func() {
		e.deleted = false
		if e.conc {
			m.idx[e.ks] = e
		} else {
			m.nsym++
		}
		m.live++
	})
}

func (m *omap) len() int {
	if m == nil {
		return 0
	}
	return m.live
}

type omapIter struct {
	m   *omap
	pos int
	rev bool
}

func (it *omapIter) next() tuple {
	if it.m != nil {
		for it.pos < len(it.m.ents) {
			var e *mapEntry
			if it.rev {
				e = it.m.ents[len(it.m.ents)-1-it.pos]
			} else {
				e = it.m.ents[it.pos]
			}
			it.pos++
			if !e.deleted {
				return tuple{true, e.key, e.val}
			}
		}
	}
	return tuple{false, nil, nil}
}

// ---------------------------------------------------------------------
// Channels (single-threaded model)

type gchan struct {
	buf    []value
	cap    int
	closed bool
	id     int
}

var chanCounter int

func makeChan(capacity int) *gchan {
	chanCounter++
	return &gchan{cap: capacity, id: chanCounter}
}

func (c *gchan) canRecv() bool { return c != nil && (len(c.buf) > 0 || c.closed) }
func (c *gchan) canSend() bool { return c != nil && (c.closed || len(c.buf) < c.cap) }

func (c *gchan) send(v value) {
	if c.closed {
		panic(targetPanic{runtimeErr("send on closed channel")})
	}
	old := c.buf
	trailUndo(func() { c.buf = old })
	nb := make([]value, len(c.buf)+1)
	copy(nb, c.buf)
	nb[len(c.buf)] = v
	c.buf = nb
}

func (c *gchan) recv() (value, bool) {
	if len(c.buf) > 0 {
		old := c.buf
		trailUndo(func() { c.buf = old })
		v := c.buf[0]
		c.buf = c.buf[1:]
		return v, true
	}
	return nil, false
}

func (c *gchan) close() {
	if c.closed {
		panic(targetPanic{runtimeErr("close of closed channel")})
	}
	trailUndo(func() { c.closed = false })
	c.closed = true
}

// ---------------------------------------------------------------------
// Equality

// nil-tolerant variant of types.Identical.
func sameType(x, y types.Type) bool {
	if x == nil {
		return y == nil
	}
	return y != nil && types.Identical(x, y)
}

// strCells returns the byte cells of a string-like value.
func strCells(v value) ([]value, bool) {
	switch v := v.(type) {
	case string:
		out := make([]value, len(v))
		for i := 0; i < len(v); i++ {
			out[i] = v[i]
		}
		return out, true
	case symstr:
		return v.b, true
	}
	return nil, false
}

func byteTerm(v value) *Term {
	switch v := v.(type) {
	case uint8:
		return mkConst(8, uint64(v))
	case *Sym:
		return v.t
	}
	panic(fmt.Sprintf("byteTerm: unexpected %T", v))
}

// symStrEq returns the term for string equality.
func symStrEq(x, y value) *Term {
	if xs, ok := x.(string); ok {
		if ys, ok := y.(string); ok {
			return mkBool(xs == ys)
		}
	}
	xd, xIsDec := x.(decstr)
	yd, yIsDec := y.(decstr)
	switch {
	case xIsDec && yIsDec:
		return mkEq(xd.x, yd.x)
	case xIsDec:
		return decEqStr(xd, y)
	case yIsDec:
		return decEqStr(yd, x)
	}
	xc, _ := strCells(x)
	yc, _ := strCells(y)
	if len(xc) != len(yc) {
		return tFalse
	}
	cs := make([]*Term, 0, len(xc))
	for i := range xc {
		cs = append(cs, mkEq(byteTerm(xc[i]), byteTerm(yc[i])))
	}
	return mkAnd(cs...)
}

// decEqStr compares decimal text of d.x with another string value.
func decEqStr(d decstr, other value) *Term {
	if s, ok := other.(string); ok {
		n, ok := parseCanonicalInt(s)
		if !ok {
			return tFalse
		}
		return mkEq(d.x, mkConst(64, uint64(n)))
	}
	cells, ok := strCells(other)
	if !ok {
		theEx.unsupported("comparison of decimal text with opaque text")
	}
	return decEqCells(d.x, cells)
}

// decEqCells: the byte cells spell the canonical decimal text of x.
func decEqCells(x *Term, cells []value) *Term {
	n := len(cells)
	if n == 0 || n > 20 {
		// no int64 has an empty decimal text or one longer than 20 characters
		return tFalse
	}
	isDigit := func(b *Term) *Term {
		return mkAnd(mkCmp(OpUle, mkConst(8, '0'), b), mkCmp(OpUle, b, mkConst(8, '9')))
	}
	digitsVal := func(cs []value) (*Term, *Term) {
		// returns (all digits, no leading zero unless single digit), value
		valid := tTrue
		val := mkConst(64, 0)
		for _, c := range cs {
			b := byteTerm(c)
			valid = mkAnd(valid, isDigit(b))
			val = mkBin(OpAdd, mkBin(OpMul, val, mkConst(64, 10)), mkZExt(mkBin(OpSub, b, mkConst(8, '0')), 64))
		}
		if len(cs) > 1 {
			valid = mkAnd(valid, mkNot(mkEq(byteTerm(cs[0]), mkConst(8, '0'))))
		}
		if len(cs) > 19 {
			// 20 digits never spell an int64 (and the unsigned sum would wrap)
			valid = tFalse
		}
		return valid, val
	}
	// non-negative form
	// (up to 19 digits the unsigned 64-bit Horner sum cannot wrap: 10^19 < 2^64;
	// 19-digit texts are additionally limited to the int64 range)
	vPos, valPos := digitsVal(cells)
	pos := mkAnd(vPos, mkEq(x, valPos), mkCmp(OpUle, valPos, mkConst(64, 1<<63-1)))
	if n == 1 {
		return pos
	}
	// negative form: '-' followed by digits, not "-0"
	vNeg, valNeg := digitsVal(cells[1:])
	neg := mkAnd(mkEq(byteTerm(cells[0]), mkConst(8, '-')), vNeg,
		mkNot(mkEq(valNeg, mkConst(64, 0))), mkEq(x, mkUn(OpNeg, valNeg)), mkCmp(OpUle, valNeg, mkConst(64, 1<<63)))
	return mkOr(pos, neg)
}

func parseCanonicalInt(s string) (int64, bool) {
	if s == "" {
		return 0, false
	}
	var n int64
	if _, err := fmt.Sscanf(s, "%d", &n); err != nil {
		return 0, false
	}
	if fmt.Sprintf("%d", n) != s {
		return 0, false
	}
	return n, true
}

// symEquals returns a term for x == y (Go's equivalence for type t).
func symEquals(t types.Type, x, y value) *Term {
	switch x := x.(type) {
	case *Sym:
		return mkEq(x.t, toTermLike(y, x.t.w))
	case string, symstr, decstr:
		return symStrEq(x, y)
	case structure:
		ys := y.(structure)
		tStruct := t.Underlying().(*types.Struct)
		cs := []*Term{}
		for i, n := 0, tStruct.NumFields(); i < n; i++ {
			if f := tStruct.Field(i); f.Name() != "_" {
				cs = append(cs, symEquals(f.Type(), x[i], ys[i]))
			}
		}
		return mkAnd(cs...)
	case array:
		ys := y.(array)
		tElt := t.Underlying().(*types.Array).Elem()
		cs := []*Term{}
		for i := range x {
			cs = append(cs, symEquals(tElt, x[i], ys[i]))
		}
		return mkAnd(cs...)
	case iface:
		yi := y.(iface)
		if !sameType(x.t, yi.t) {
			return tFalse
		}
		if x.t == nil {
			return tTrue
		}
		switch x.t.Underlying().(type) {
		case *types.Slice, *types.Map, *types.Signature:
			panic(targetPanic{runtimeErr("comparing uncomparable type " + x.t.String())})
		}
		return symEquals(x.t, x.v, yi.v)
	}
	switch y := y.(type) {
	case *Sym:
		return mkEq(toTermLike(x, y.t.w), y.t)
	case symstr, decstr:
		return symStrEq(x, y)
	}
	return mkBool(equals(t, x, y))
}

// toTermLike converts an integer/bool value to a term of width w.
func toTermLike(v value, w int) *Term {
	switch v := v.(type) {
	case *Sym:
		return v.t
	case bool:
		return mkBool(v)
	}
	return mkConst(w, uint64(asInt64(v)))
}

// equals returns true iff x and y are equal according to Go's
// linguistic equivalence relation for type t (concrete values only).
func equals(t types.Type, x, y value) bool {
	switch x := x.(type) {
	case bool:
		return x == y.(bool)
	case int:
		return x == y.(int)
	case int8:
		return x == y.(int8)
	case int16:
		return x == y.(int16)
	case int32:
		return x == y.(int32)
	case int64:
		return x == y.(int64)
	case uint:
		return x == y.(uint)
	case uint8:
		return x == y.(uint8)
	case uint16:
		return x == y.(uint16)
	case uint32:
		return x == y.(uint32)
	case uint64:
		return x == y.(uint64)
	case uintptr:
		return x == y.(uintptr)
	case float32:
		return x == y.(float32)
	case float64:
		return x == y.(float64)
	case complex64:
		return x == y.(complex64)
	case complex128:
		return x == y.(complex128)
	case string:
		return x == y.(string)
	case *value:
		return x == y.(*value)
	case *gchan:
		return x == y.(*gchan)
	case structure, array, iface:
		c := symEquals(t, x, y)
		if c.op != OpConst {
			panic("equals: symbolic result in concrete context")
		}
		return c.val != 0
	}
	panic(targetPanic{runtimeErr(fmt.Sprintf("comparing uncomparable type %s", t))})
}

// ---------------------------------------------------------------------
// load/store

// load returns the value of type T in *addr.
func load(T types.Type, addr *value) value {
	switch T := T.Underlying().(type) {
	case *types.Struct:
		v := (*addr).(structure)
		a := make(structure, len(v))
		for i := range a {
			a[i] = load(T.Field(i).Type(), &v[i])
		}
		return a
	case *types.Array:
		v := (*addr).(array)
		a := make(array, len(v))
		for i := range a {
			a[i] = load(T.Elem(), &v[i])
		}
		return a
	default:
		return *addr
	}
}

// store stores value v of type T into *addr.
func store(T types.Type, addr *value, v value) {
	switch T := T.Underlying().(type) {
	case *types.Struct:
		lhs := (*addr).(structure)
		rhs := v.(structure)
		for i := range lhs {
			store(T.Field(i).Type(), &lhs[i], rhs[i])
		}
	case *types.Array:
		lhs := (*addr).(array)
		rhs := v.(array)
		for i := range lhs {
			store(T.Elem(), &lhs[i], rhs[i])
		}
	default:
		setCell(addr, v)
	}
}

// copyVal makes an unaliased copy of an aggregate value.
func copyVal(v value) value {
	switch v := v.(type) {
	case structure:
		a := make(structure, len(v))
		for i := range v {
			a[i] = copyVal(v[i])
		}
		return a
	case array:
		a := make(array, len(v))
		for i := range v {
			a[i] = copyVal(v[i])
		}
		return a
	}
	return v
}

// ---------------------------------------------------------------------
// Printing

func writeValue(buf *bytes.Buffer, v value) {
	switch v := v.(type) {
	case nil, bool, int, int8, int16, int32, int64, uint, uint8, uint16, uint32, uint64, uintptr, float32, float64, complex64, complex128, string:
		fmt.Fprintf(buf, "%v", v)
	case *Sym:
		fmt.Fprintf(buf, "<sym %s>", v.t)
	case symstr:
		buf.WriteString("<symstr")
		for _, c := range v.b {
			buf.WriteByte(' ')
			writeValue(buf, c)
		}
		buf.WriteString(">")
	case decstr:
		fmt.Fprintf(buf, "<dec %s>", v.x)
	case *decbytes:
		fmt.Fprintf(buf, "<decbytes %s>", v.x)
	case *omap:
		buf.WriteString("map[")
		sep := ""
		if v != nil {
			for _, e := range v.ents {
				if e.deleted {
					continue
				}
				buf.WriteString(sep)
				sep = " "
				writeValue(buf, e.key)
				buf.WriteString(":")
				writeValue(buf, e.val)
			}
		}
		buf.WriteString("]")
	case *gchan:
		fmt.Fprintf(buf, "chan%p", v)
	case *value:
		if v == nil {
			buf.WriteString("<nil>")
		} else {
			fmt.Fprintf(buf, "%p", v)
		}
	case iface:
		fmt.Fprintf(buf, "(%s, ", v.t)
		writeValue(buf, v.v)
		buf.WriteString(")")
	case structure:
		buf.WriteString("{")
		for i, e := range v {
			if i > 0 {
				buf.WriteString(" ")
			}
			writeValue(buf, e)
		}
		buf.WriteString("}")
	case array:
		buf.WriteString("[")
		for i, e := range v {
			if i > 0 {
				buf.WriteString(" ")
			}
			writeValue(buf, e)
		}
		buf.WriteString("]")
	case []value:
		buf.WriteString("[")
		for i, e := range v {
			if i > 0 {
				buf.WriteString(" ")
			}
			writeValue(buf, e)
		}
		buf.WriteString("]")
	case *ssa.Function, *ssa.Builtin, *closure:
		fmt.Fprintf(buf, "%p", v)
	case tuple:
		buf.WriteString("(")
		for i, e := range v {
			if i > 0 {
				buf.WriteString(", ")
			}
			writeValue(buf, e)
		}
		buf.WriteString(")")
	default:
		fmt.Fprintf(buf, "<%T>", v)
	}
}

func toString(v value) string {
	var b bytes.Buffer
	writeValue(&b, v)
	return b.String()
}

// ---------------------------------------------------------------------
// Iterators

type stringIter struct {
	s string
	i int
}

func (it *stringIter) next() tuple {
	okv := make(tuple, 3)
	if it.i >= len(it.s) {
		okv[0] = false
		return okv
	}
	ch, n := utf8.DecodeRuneInString(it.s[it.i:])
	okv[0] = true
	okv[1] = it.i
	okv[2] = ch
	it.i += n
	return okv
}

// symstrIter ranges over a symbolic string; bytes are assumed ASCII (the
// assumption is forked on: a path with a byte >= 0x80 is unsupported).
type symstrIter struct {
	s symstr
	i int
}

func (it *symstrIter) next() tuple {
	okv := make(tuple, 3)
	if it.i >= len(it.s.b) {
		okv[0] = false
		return okv
	}
	c := it.s.b[it.i]
	okv[0] = true
	okv[1] = it.i
	okv[2] = byteToRune(c)
	it.i++
	return okv
}

func byteToRune(c value) value {
	switch c := c.(type) {
	case uint8:
		if c >= 0x80 {
			theEx.unsupported("non-ASCII byte in rune conversion of symbolic string")
		}
		return int32(c)
	case *Sym:
		ascii := mkCmp(OpUlt, c.t, mkConst(8, 0x80))
		if !theEx.decide(ascii, "ascii") {
			theEx.unsupported("non-ASCII byte in rune conversion of symbolic string")
		}
		return &Sym{mkZExt(c.t, 32)}
	}
	panic("byteToRune")
}

func sortedKeys(m map[string]int) []string {
	ks := make([]string, 0, len(m))
	for k := range m {
		ks = append(ks, k)
	}
	sort.Strings(ks)
	return ks
}
