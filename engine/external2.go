package main

import (
	"fmt"
	"go/types"
	"strings"

	"golang.org/x/tools/go/ssa"
)

// Further intrinsics (kept apart from external.go so additions do not
// depend on its formatting).

func init() {
	externals["github.com/google/uuid.NewString"] = func(fr *frame, a []value) value {
		usedIntrinsics["uuid.NewString(constant)"]++
		return "00000000-0000-4000-8000-000000000000"
	}
	externals["errors.Is"] = func(fr *frame, a []value) value {
		x, y := a[0].(iface), a[1].(iface)
		if x.t == nil || y.t == nil {
			return x.t == nil && y.t == nil
		}
		if !sameType(x.t, y.t) {
			return false
		}
		return equals(x.t, x.v, y.v)
	}
}

func init() {
	externals[hpkg+"vTier"] = func(fr *frame, a []value) value { return tierLevel }
	externals[hpkg+"vRegion"] = func(fr *frame, a []value) value {
		label, _ := goString(a[0])
		if openRegions[label] {
			theEx.regions[label] = toTerm(a[1])
		}
		return nil
	}
}

// strings.Builder: {addr *Builder; buf []byte}.  Methods are modelled on
// the buf field directly (the real ones use unsafe).
func builderBuf(p value) *value {
	ptr := p.(*value)
	if ptr == nil {
		nilDeref()
	}
	st := (*ptr).(structure)
	return &st[1]
}

func init() {
	byteT := types.Typ[types.Uint8]
	externals["(*strings.Builder).WriteString"] = func(fr *frame, a []value) value {
		cell := builderBuf(a[0])
		buf, _ := (*cell).([]value)
		var add []value
		switch s := a[1].(type) {
		case string, symstr:
			add, _ = strCells(s)
		default:
			theEx.unsupported("strings.Builder.WriteString of opaque text")
		}
		setCell(cell, appendCells(buf, add, byteT))
		return tuple{len(add), iface{}}
	}
	externals["(*strings.Builder).Write"] = func(fr *frame, a []value) value {
		cell := builderBuf(a[0])
		buf, _ := (*cell).([]value)
		add := a[1].([]value)
		setCell(cell, appendCells(buf, add, byteT))
		return tuple{len(add), iface{}}
	}
	externals["(*strings.Builder).WriteByte"] = func(fr *frame, a []value) value {
		cell := builderBuf(a[0])
		buf, _ := (*cell).([]value)
		setCell(cell, appendCells(buf, []value{a[1]}, byteT))
		return iface{}
	}
	externals["(*strings.Builder).WriteRune"] = func(fr *frame, a []value) value {
		cell := builderBuf(a[0])
		buf, _ := (*cell).([]value)
		r, ok := a[1].(int32)
		if !ok {
			theEx.unsupported("strings.Builder.WriteRune of symbolic rune")
		}
		enc := []byte(string(r))
		setCell(cell, appendCells(buf, bytesToValue(enc), byteT))
		return tuple{len(enc), iface{}}
	}
	externals["(*strings.Builder).String"] = func(fr *frame, a []value) value {
		cell := builderBuf(a[0])
		buf, _ := (*cell).([]value)
		return normStr(buf)
	}
	externals["(*strings.Builder).Len"] = func(fr *frame, a []value) value {
		cell := builderBuf(a[0])
		buf, _ := (*cell).([]value)
		return len(buf)
	}
	externals["(*strings.Builder).Reset"] = func(fr *frame, a []value) value {
		setCell(builderBuf(a[0]), []value(nil))
		return nil
	}
	externals["(*strings.Builder).Grow"] = func(fr *frame, a []value) value { return nil }
}

// renderObserved renders an observed value under a model the way the
// native harness runtime does (fmt %v).
func renderObserved(v value, m Model) (string, bool) {
	switch x := v.(type) {
	case iface:
		if x.t == nil {
			return "<nil>", true
		}
		if s, ok := x.v.(*Sym); ok {
			val := m.Eval(s.t)
			w, signed, _ := intInfo(x.t)
			if w == 0 {
				if val != 0 {
					return "true", true
				}
				return "false", true
			}
			if signed {
				return fmt.Sprint(sext64(val, w)), true
			}
			return fmt.Sprint(val), true
		}
		if _, isSlice := x.t.Underlying().(*types.Slice); isSlice {
			if cells, ok := x.v.([]value); ok {
				parts := []string{}
				for _, c := range cells {
					s, ok := renderObserved(iface{t: x.t.Underlying().(*types.Slice).Elem(), v: c}, m)
					if !ok {
						return "", false
					}
					parts = append(parts, s)
				}
				return "[" + strings.Join(parts, " ") + "]", true
			}
		}
		return renderObserved(x.v, m)
	case bool, int, int8, int16, int32, int64, uint, uint8, uint16, uint32, uint64, uintptr, string:
		return fmt.Sprint(x), true
	case symstr:
		b := make([]byte, len(x.b))
		for i, c := range x.b {
			b[i] = byte(m.Eval(byteTerm(c)))
		}
		return string(b), true
	case decstr:
		return fmt.Sprint(int64(m.Eval(x.x))), true
	}
	return "", false
}

func init() {
	externals["internal/stringslite.Clone"] = func(fr *frame, a []value) value { return a[0] }
	externals["strings.Clone"] = func(fr *frame, a []value) value { return a[0] }
	externals[hpkg+"vIsDecimal"] = func(fr *frame, a []value) value {
		switch s := a[0].(type) {
		case decstr, *decbytes:
			return true
		case string:
			_, ok := parseCanonicalInt(s)
			return ok
		case symstr:
			// canonical iff it equals the decimal text of some x: decide by
			// pattern only
			x := theEx.freshVar("$isdec", 64)
			theEx.inputs = append(theEx.inputs, InputRec{x.name, "aux", 64})
			_ = x
			theEx.unsupported("vIsDecimal on symbolic text")
		}
		return false
	}
	externals[hpkg+"vDecimalOf"] = func(fr *frame, a []value) value {
		switch d := a[0].(type) {
		case decstr:
			return fromTerm(types.Typ[types.Int64], d.x)
		case *decbytes:
			return fromTerm(types.Typ[types.Int64], d.x)
		case string:
			n, _ := parseCanonicalInt(d)
			return n
		}
		theEx.unsupported("vDecimalOf on non-decimal text")
		return nil
	}
}

// ---------------------------------------------------------------------
// timers: time.NewTimer returns a timer whose channel receives a value only
// when the harness fires it (vFireTimer), which the harness may do at any
// schedule point - i.e. a timer may fire at an arbitrary moment, but (stub
// contract) never while its duration is <= 0 is the only case in which it is
// ready at once.

type timerRec struct {
	ch      *gchan
	stopped bool
	d       value // the duration it was armed with
}

var activeTimers []*timerRec

func init() {
	externals["time.NewTimer"] = func(fr *frame, a []value) value {
		usedIntrinsics["time.NewTimer(fires when the harness environment says so)"]++
		ch := makeChan(1)
		tr := &timerRec{ch: ch, d: a[0]}
		old := activeTimers
		trailUndo(func() { activeTimers = old })
		activeTimers = append(append([]*timerRec{}, activeTimers...), tr)
		if d, ok := a[0].(int64); ok && d <= 0 {
			ch.send(structure{uint64(0), int64(0), (*value)(nil)})
		}
		// time.Timer{C <-chan Time, initTimer bool}
		v := value(structure{ch, true})
		timerOf[&v] = tr
		return &v
	}
	externals["(*time.Timer).Stop"] = func(fr *frame, a []value) value {
		if tr := timerOf[a[0].(*value)]; tr != nil {
			was := !tr.stopped && len(tr.ch.buf) == 0
			tr.stopped = true
			return was
		}
		return false
	}
	externals["time.After"] = func(fr *frame, a []value) value {
		ch := makeChan(1)
		tr := &timerRec{ch: ch}
		activeTimers = append(append([]*timerRec{}, activeTimers...), tr)
		return ch
	}
	externals[hpkg+"vFireTimer"] = func(fr *frame, a []value) value {
		for i := len(activeTimers) - 1; i >= 0; i-- {
			tr := activeTimers[i]
			if !tr.stopped && len(tr.ch.buf) == 0 {
				tr.ch.send(structure{uint64(0), int64(0), (*value)(nil)})
				return true
			}
		}
		return false
	}
	// vTimerArmedNs(): the duration the strand's pending timer was armed with (-1: none)
	externals[hpkg+"vTimerArmedNs"] = func(fr *frame, a []value) value {
		for i := len(activeTimers) - 1; i >= 0; i-- {
			tr := activeTimers[i]
			if !tr.stopped && len(tr.ch.buf) == 0 {
				return tr.d
			}
		}
		return int64(-1)
	}
	externals[hpkg+"vActiveTimers"] = func(fr *frame, a []value) value {
		n := 0
		for _, tr := range activeTimers {
			if !tr.stopped && len(tr.ch.buf) == 0 {
				n++
			}
		}
		return n
	}
}

var timerOf = map[*value]*timerRec{}

// schedule points of the blocking protocol: entry of the functions that take
// the database lock (the native replay inserts vSched at the same places)
var schedPointFuncs = map[string]bool{
	"(*github.com/jimsnab/go-redisemu.dataStoreCommand).lock":             true,
	"(*github.com/jimsnab/go-redisemu.dataStoreCommand).acquireExclusive": true,
	"(*github.com/jimsnab/go-redisemu.dataStore).enterListBlock":          true,
	"(*github.com/jimsnab/go-redisemu.dataStore).enterListMultiBlock":     true,
	"(*github.com/jimsnab/go-redisemu.dataStore).leaveListBlock":          true,
}

func init() {
	// vRunBlocking(f) runs the strand under test; returns true when it ended
	// parked forever (nothing ready and the environment has no more steps)
	externals[hpkg+"vRunBlockingOn"] = func(fr *frame, a []value) (res value) {
		defer func() {
			if r := recover(); r != nil {
				if pe, ok := r.(pathEnd); ok && pe.kind == "blocked" {
					theEx.envHook = nil
					res = true
					return
				}
				panic(r)
			}
		}()
		call(fr.i, fr, fr.callpos, a[1], nil)
		theEx.envHook = nil
		return false
	}
	externals[hpkg+"vReleaseWaiter"] = func(fr *frame, a []value) value { return nil }
}

func init() {
	externals["internal/bytealg.IndexByteString"] = func(fr *frame, a []value) value {
		if s, ok := goString(a[0]); ok {
			if c, ok := a[1].(uint8); ok {
				return strings.IndexByte(s, c)
			}
		}
		cells, ok := strCells(a[0])
		if !ok {
			theEx.unsupported("IndexByteString on opaque text")
		}
		for i, c := range cells {
			if theEx.decide(mkEq(byteTerm(c), toTermLike(a[1], 8)), "indexbyte") {
				return i
			}
		}
		return -1
	}
	externals["internal/bytealg.IndexByte"] = func(fr *frame, a []value) value {
		cells, ok := a[0].([]value)
		if !ok {
			theEx.unsupported("IndexByte on opaque bytes")
		}
		for i, c := range cells {
			if theEx.decide(mkEq(byteTerm(c), toTermLike(a[1], 8)), "indexbyte") {
				return i
			}
		}
		return -1
	}
	externals["internal/bytealg.CountString"] = func(fr *frame, a []value) value {
		if s, ok := goString(a[0]); ok {
			if c, ok := a[1].(uint8); ok {
				return strings.Count(s, string(rune(c)))
			}
		}
		theEx.unsupported("CountString on symbolic text")
		return nil
	}
}

func init() {
	externals["time.initLocal"] = func(fr *frame, a []value) value { return nil }
	externals["(time.Time).Format"] = func(fr *frame, a []value) value {
		usedIntrinsics["(time.Time).Format(empty text: only used in log lines)"]++
		return ""
	}
}

func init() {
	// strings.Compare: lexicographic comparison (the stdlib body ends in an
	// assembly routine)
	externals["strings.Compare"] = func(fr *frame, a []value) value {
		s, ok1 := goString(a[0])
		t, ok2 := goString(a[1])
		if ok1 && ok2 {
			return strings.Compare(s, t)
		}
		for i := 0; i < 2; i++ {
			if d, isDec := a[i].(decstr); isDec {
				a[i] = symstr{expandDec(d.x)}
			}
		}
		xc, okx := strCells(a[0])
		yc, oky := strCells(a[1])
		if !okx || !oky {
			theEx.unsupported("strings.Compare on opaque text")
		}
		n := len(xc)
		if len(yc) < n {
			n = len(yc)
		}
		var res *Term
		switch {
		case len(xc) < len(yc):
			res = mkConst(64, ^uint64(0))
		case len(xc) > len(yc):
			res = mkConst(64, 1)
		default:
			res = mkConst(64, 0)
		}
		for i := n - 1; i >= 0; i-- {
			x, y := byteTerm(xc[i]), byteTerm(yc[i])
			res = mkIte(mkCmp(OpUlt, x, y), mkConst(64, ^uint64(0)), mkIte(mkCmp(OpUlt, y, x), mkConst(64, 1), res))
		}
		return fromTerm(types.Typ[types.Int], res)
	}
}

func init() {
	// sync.Pool: no pooling - Get makes a fresh object, Put drops it (the
	// stdlib implementation pins the goroutine to its P, which has no
	// meaning in the interpreter)
	externals["(*sync.Pool).Get"] = func(fr *frame, a []value) value {
		p := a[0].(*value)
		st := (*p).(structure)
		// the New field is the last field of sync.Pool
		newFn := st[len(st)-1]
		switch f := newFn.(type) {
		case *closure, *ssa.Function:
			if fn, ok := f.(*ssa.Function); ok && fn == nil {
				return iface{}
			}
			return call(fr.i, fr, fr.callpos, f, nil)
		}
		return iface{}
	}
	externals["(*sync.Pool).Put"] = func(fr *frame, a []value) value { return nil }
}

func init() {
	// substring search on symbolic text (strings.Index / Contains / Replace
	// end up here): the first position at which the needle matches, decided
	// position by position
	indexSym := func(hay, needle []value) int {
		if len(needle) == 0 {
			return 0
		}
		for i := 0; i+len(needle) <= len(hay); i++ {
			cs := []*Term{}
			for j := range needle {
				cs = append(cs, mkEq(byteTerm(hay[i+j]), byteTerm(needle[j])))
			}
			if theEx.decide(mkAnd(cs...), "indexstring") {
				return i
			}
		}
		return -1
	}
	externals["internal/bytealg.IndexString"] = func(fr *frame, a []value) value {
		if s, ok := goString(a[0]); ok {
			if t, ok := goString(a[1]); ok {
				return strings.Index(s, t)
			}
		}
		h, ok1 := strCells(a[0])
		n, ok2 := strCells(a[1])
		if !ok1 || !ok2 {
			theEx.unsupported("IndexString on opaque text")
		}
		return indexSym(h, n)
	}
	externals["internal/bytealg.Index"] = func(fr *frame, a []value) value {
		h, ok1 := a[0].([]value)
		n, ok2 := a[1].([]value)
		if !ok1 || !ok2 {
			theEx.unsupported("bytealg.Index on opaque bytes")
		}
		return indexSym(h, n)
	}
}
