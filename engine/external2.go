package main

// Further intrinsics (kept apart from external.go so additions do not
// depend on its formatting).

func init() {
	externals["github.com/google/uuid.NewString"] = func(fr *frame, a []value) value {
		usedIntrinsics["uuid.NewString(constant)"]++
		return "00000000-0000-4000-8000-000000000000"
	}
	externals["errors.Is"] = func(fr *frame, a []value) value {
		x, y := a[0].(iface), a[1].(iface)
		if x.t == nil || y.t == nil {
			return x.t == nil && y.t == nil
		}
		if !sameType(x.t, y.t) {
			return false
		}
		return equals(x.t, x.v, y.v)
	}
}
