package main

import (
	"fmt"
	"go/types"
	"strings"
)

// Further intrinsics (kept apart from external.go so additions do not
// depend on its formatting).

func init() {
	externals["github.com/google/uuid.NewString"] = func(fr *frame, a []value) value {
		usedIntrinsics["uuid.NewString(constant)"]++
		return "00000000-0000-4000-8000-000000000000"
	}
	externals["errors.Is"] = func(fr *frame, a []value) value {
		x, y := a[0].(iface), a[1].(iface)
		if x.t == nil || y.t == nil {
			return x.t == nil && y.t == nil
		}
		if !sameType(x.t, y.t) {
			return false
		}
		return equals(x.t, x.v, y.v)
	}
}

func init() {
	externals[hpkg+"vTier"] = func(fr *frame, a []value) value { return tierLevel }
	externals[hpkg+"vRegion"] = func(fr *frame, a []value) value {
		label, _ := goString(a[0])
		if openRegions[label] {
			theEx.regions[label] = toTerm(a[1])
		}
		return nil
	}
}

// strings.Builder: {addr *Builder; buf []byte}.  Methods are modelled on
// the buf field directly (the real ones use unsafe).
func builderBuf(p value) *value {
	ptr := p.(*value)
	if ptr == nil {
		nilDeref()
	}
	st := (*ptr).(structure)
	return &st[1]
}

func init() {
	byteT := types.Typ[types.Uint8]
	externals["(*strings.Builder).WriteString"] = func(fr *frame, a []value) value {
		cell := builderBuf(a[0])
		buf, _ := (*cell).([]value)
		var add []value
		switch s := a[1].(type) {
		case string, symstr:
			add, _ = strCells(s)
		default:
			theEx.unsupported("strings.Builder.WriteString of opaque text")
		}
		setCell(cell, appendCells(buf, add, byteT))
		return tuple{len(add), iface{}}
	}
	externals["(*strings.Builder).Write"] = func(fr *frame, a []value) value {
		cell := builderBuf(a[0])
		buf, _ := (*cell).([]value)
		add := a[1].([]value)
		setCell(cell, appendCells(buf, add, byteT))
		return tuple{len(add), iface{}}
	}
	externals["(*strings.Builder).WriteByte"] = func(fr *frame, a []value) value {
		cell := builderBuf(a[0])
		buf, _ := (*cell).([]value)
		setCell(cell, appendCells(buf, []value{a[1]}, byteT))
		return iface{}
	}
	externals["(*strings.Builder).WriteRune"] = func(fr *frame, a []value) value {
		cell := builderBuf(a[0])
		buf, _ := (*cell).([]value)
		r, ok := a[1].(int32)
		if !ok {
			theEx.unsupported("strings.Builder.WriteRune of symbolic rune")
		}
		enc := []byte(string(r))
		setCell(cell, appendCells(buf, bytesToValue(enc), byteT))
		return tuple{len(enc), iface{}}
	}
	externals["(*strings.Builder).String"] = func(fr *frame, a []value) value {
		cell := builderBuf(a[0])
		buf, _ := (*cell).([]value)
		return normStr(buf)
	}
	externals["(*strings.Builder).Len"] = func(fr *frame, a []value) value {
		cell := builderBuf(a[0])
		buf, _ := (*cell).([]value)
		return len(buf)
	}
	externals["(*strings.Builder).Reset"] = func(fr *frame, a []value) value {
		setCell(builderBuf(a[0]), []value(nil))
		return nil
	}
	externals["(*strings.Builder).Grow"] = func(fr *frame, a []value) value { return nil }
}

// renderObserved renders an observed value under a model the way the
// native harness runtime does (fmt %v).
func renderObserved(v value, m Model) (string, bool) {
	switch x := v.(type) {
	case iface:
		if x.t == nil {
			return "<nil>", true
		}
		if s, ok := x.v.(*Sym); ok {
			val := m.Eval(s.t)
			w, signed, _ := intInfo(x.t)
			if w == 0 {
				if val != 0 {
					return "true", true
				}
				return "false", true
			}
			if signed {
				return fmt.Sprint(sext64(val, w)), true
			}
			return fmt.Sprint(val), true
		}
		if _, isSlice := x.t.Underlying().(*types.Slice); isSlice {
			if cells, ok := x.v.([]value); ok {
				parts := []string{}
				for _, c := range cells {
					s, ok := renderObserved(iface{t: x.t.Underlying().(*types.Slice).Elem(), v: c}, m)
					if !ok {
						return "", false
					}
					parts = append(parts, s)
				}
				return "[" + strings.Join(parts, " ") + "]", true
			}
		}
		return renderObserved(x.v, m)
	case bool, int, int8, int16, int32, int64, uint, uint8, uint16, uint32, uint64, uintptr, string:
		return fmt.Sprint(x), true
	case symstr:
		b := make([]byte, len(x.b))
		for i, c := range x.b {
			b[i] = byte(m.Eval(byteTerm(c)))
		}
		return string(b), true
	case decstr:
		return fmt.Sprint(int64(m.Eval(x.x))), true
	}
	return "", false
}

func init() {
	externals["internal/stringslite.Clone"] = func(fr *frame, a []value) value { return a[0] }
	externals["strings.Clone"] = func(fr *frame, a []value) value { return a[0] }
	externals[hpkg+"vIsDecimal"] = func(fr *frame, a []value) value {
		switch s := a[0].(type) {
		case decstr, *decbytes:
			return true
		case string:
			_, ok := parseCanonicalInt(s)
			return ok
		case symstr:
			// canonical iff it equals the decimal text of some x: decide by
			// pattern only
			x := theEx.freshVar("$isdec", 64)
			theEx.inputs = append(theEx.inputs, InputRec{x.name, "aux", 64})
			_ = x
			theEx.unsupported("vIsDecimal on symbolic text")
		}
		return false
	}
	externals[hpkg+"vDecimalOf"] = func(fr *frame, a []value) value {
		switch d := a[0].(type) {
		case decstr:
			return fromTerm(types.Typ[types.Int64], d.x)
		case *decbytes:
			return fromTerm(types.Typ[types.Int64], d.x)
		case string:
			n, _ := parseCanonicalInt(d)
			return n
		}
		theEx.unsupported("vDecimalOf on non-decimal text")
		return nil
	}
}
