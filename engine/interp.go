// Portions derived from golang.org/x/tools/go/ssa/interp (BSD-style
// license, Copyright 2013 The Go Authors).

package main

// A symbolic interpreter for go/ssa.  Concrete data are executed as in
// x/tools' ssa/interp; integers, booleans and bytes may also be SMT terms.
// A branch on a symbolic condition asks the Explorer which way to go.

import (
	"fmt"
	"go/token"
	"go/types"
	"os"
	"slices"
	"strings"

	"golang.org/x/tools/go/ssa"
)

type continuation int

const (
	kNext continuation = iota
	kReturn
	kJump
)

type interpreter struct {
	prog               *ssa.Program
	globals            map[*ssa.Global]*value
	runtimeErrorString types.Type
	sizes              types.Sizes
	mainPkg            *ssa.Package
	steps              int64 // SSA instructions interpreted (total)
	pathSteps          int64 // ... in the current path
	maxPathSteps       int64
	funcsEntered       map[*ssa.Function]int
	pendingGo          []pendingCall
	initDone           map[*ssa.Package]bool
	tracing            bool
	depth              int
	depthGuard         int
	inInit             bool
	errorStringType    types.Type
}

type pendingCall struct {
	fn   value
	args []value
	pos  token.Pos
}

type deferred struct {
	fn    value
	args  []value
	instr *ssa.Defer
	tail  *deferred
}

type frame struct {
	i                *interpreter
	caller           *frame
	fn               *ssa.Function
	block, prevBlock *ssa.BasicBlock
	env              map[ssa.Value]value // dynamic values of SSA variables
	locals           []value
	defers           *deferred
	result           value
	panicking        bool
	panic            interface{}
	phitemps         []value
	callpos          token.Pos
	branchCount      map[ssa.Instruction]int
}

// targetPanic is defined in ops.go.

// runtimeErr builds the value of a runtime.Error panic.
func runtimeErr(msg string) value {
	return iface{theInterp.runtimeErrorString, "runtime error: " + msg}
}

func (fr *frame) get(key ssa.Value) value {
	switch key := key.(type) {
	case nil:
		return nil
	case *ssa.Function, *ssa.Builtin:
		return key
	case *ssa.Const:
		return constValue(key)
	case *ssa.Global:
		if r, ok := fr.i.globals[key]; ok {
			return r
		}
		return fr.i.globalAddr(key)
	}
	if r, ok := fr.env[key]; ok {
		return r
	}
	panic(fmt.Sprintf("get: no value for %T: %v", key, key.Name()))
}

func (i *interpreter) globalAddr(g *ssa.Global) *value {
	if r, ok := i.globals[g]; ok {
		return r
	}
	cell := zero(mustDeref(g.Type()))
	i.globals[g] = &cell
	return &cell
}

// isEngineAbort reports whether a recovered panic value is an engine
// control-flow signal that target code must not intercept.
func isEngineAbort(p interface{}) bool {
	switch p.(type) {
	case pathEnd, engineFault:
		return true
	}
	return false
}

func (fr *frame) runDefer(d *deferred) {
	var ok bool
	defer func() {
		if !ok {
			r := recover()
			if isEngineAbort(r) {
				panic(r)
			}
			// Deferred call created a new state of panic.
			fr.panicking = true
			fr.panic = r
		}
	}()
	call(fr.i, fr, d.instr.Pos(), d.fn, d.args)
	ok = true
}

func (fr *frame) runDefers() {
	for d := fr.defers; d != nil; d = d.tail {
		fr.runDefer(d)
	}
	fr.defers = nil
	if fr.panicking {
		panic(fr.panic) // new panic, or still panicking
	}
}

func lookupMethod(i *interpreter, typ types.Type, meth *types.Func) *ssa.Function {
	return i.prog.LookupMethod(typ, meth.Pkg(), meth.Name())
}

func nilDeref() {
	panic(targetPanic{runtimeErr("invalid memory address or nil pointer dereference")})
}

// visitInstr interprets a single ssa.Instruction.
var curFrame *frame

func visitInstr(fr *frame, instr ssa.Instruction) continuation {
	curFrame = fr
	fr.i.steps++
	fr.i.pathSteps++
	if fr.i.pathSteps > fr.i.maxPathSteps {
		theEx.abort("step-limit", fmt.Sprintf("more than %d instructions on one path (in %s)", fr.i.maxPathSteps, fr.fn))
	}
	switch instr := instr.(type) {
	case *ssa.DebugRef:
		// no-op

	case *ssa.UnOp:
		fr.env[instr] = unop(instr, fr.get(instr.X))

	case *ssa.BinOp:
		fr.env[instr] = binop(instr, fr.get(instr.X), fr.get(instr.Y))

	case *ssa.Call:
		fn, args := prepareCall(fr, &instr.Call)
		fr.env[instr] = call(fr.i, fr, instr.Pos(), fn, args)

	case *ssa.ChangeInterface:
		fr.env[instr] = fr.get(instr.X)

	case *ssa.ChangeType:
		fr.env[instr] = fr.get(instr.X) // (can't fail)

	case *ssa.Convert:
		fr.env[instr] = conv(instr.Type(), instr.X.Type(), fr.get(instr.X))

	case *ssa.SliceToArrayPointer:
		fr.env[instr] = sliceToArrayPointer(instr.Type(), instr.X.Type(), fr.get(instr.X))

	case *ssa.MakeInterface:
		fr.env[instr] = iface{t: instr.X.Type(), v: fr.get(instr.X)}

	case *ssa.Extract:
		fr.env[instr] = fr.get(instr.Tuple).(tuple)[instr.Index]

	case *ssa.Slice:
		fr.env[instr] = slice(instr, fr.get(instr.X), fr.get(instr.Low), fr.get(instr.High), fr.get(instr.Max))

	case *ssa.Return:
		switch len(instr.Results) {
		case 0:
		case 1:
			fr.result = fr.get(instr.Results[0])
		default:
			var res []value
			for _, r := range instr.Results {
				res = append(res, fr.get(r))
			}
			fr.result = tuple(res)
		}
		fr.block = nil
		return kReturn

	case *ssa.RunDefers:
		fr.runDefers()

	case *ssa.Panic:
		panic(targetPanic{fr.get(instr.X)})

	case *ssa.Send:
		chanSend(fr.get(instr.Chan).(*gchan), fr.get(instr.X))

	case *ssa.Store:
		switch addr := fr.get(instr.Addr).(type) {
		case *value:
			if addr == nil {
				nilDeref()
			}
			if mon.on {
				monWrite(addr, fr.get(instr.Val), fr)
			}
			store(mustDeref(instr.Addr.Type()), addr, fr.get(instr.Val))
		case symaddr:
			storeSymAddr(mustDeref(instr.Addr.Type()), addr, fr.get(instr.Val))
		default:
			panic(fmt.Sprintf("store: unexpected address %T", addr))
		}

	case *ssa.If:
		succ := 1
		switch c := fr.get(instr.Cond).(type) {
		case bool:
			if c {
				succ = 0
			}
		case *Sym:
			if fr.branchCount == nil {
				fr.branchCount = map[ssa.Instruction]int{}
			}
			fr.branchCount[instr]++
			if n := fr.branchCount[instr]; n > theEx.unwind {
				theEx.abort("unwind", fmt.Sprintf("symbolic branch taken %d times in one activation at %s", n, fr.i.prog.Fset.Position(instr.Pos())))
			}
			if theEx.decide(c.t, "") {
				succ = 0
			}
		default:
			panic(fmt.Sprintf("if: unexpected condition %T", c))
		}
		fr.prevBlock, fr.block = fr.block, fr.block.Succs[succ]
		return kJump

	case *ssa.Jump:
		fr.prevBlock, fr.block = fr.block, fr.block.Succs[0]
		return kJump

	case *ssa.Defer:
		fn, args := prepareCall(fr, &instr.Call)
		defers := &fr.defers
		if into := fr.get(instr.DeferStack); into != nil {
			defers = into.(**deferred)
		}
		*defers = &deferred{
			fn:    fn,
			args:  args,
			instr: instr,
			tail:  *defers,
		}

	case *ssa.Go:
		fn, args := prepareCall(fr, &instr.Call)
		theEx.spawn(fr.i, pendingCall{fn, args, instr.Pos()})

	case *ssa.MakeChan:
		fr.env[instr] = makeChan(int(asInt64(fr.get(instr.Size))))

	case *ssa.Alloc:
		var addr *value
		if instr.Heap {
			addr = new(value)
			fr.env[instr] = addr
		} else {
			addr = fr.env[instr].(*value)
		}
		*addr = zero(mustDeref(instr.Type()))

	case *ssa.MakeSlice:
		lenV, capV := fr.get(instr.Len), fr.get(instr.Cap)
		var n, c int64
		if isSym(lenV) || isSym(capV) {
			lt, ct := mkSExtTo64(toTerm(lenV), true), mkSExtTo64(toTerm(capV), true)
			bad := mkOr(mkCmp(OpSlt, lt, mkConst(64, 0)), mkCmp(OpSlt, ct, lt))
			theEx.panicIf(bad, "makeslice: len out of range")
			theEx.allocCheck(ct, isSym(lenV))
			n = theEx.concretize(lt, 0, theEx.allocLimit, "make-len")
			// a symbolic capacity is not enumerated: spare capacity of a fresh
			// slice is unobservable except through cap(); use len.
			c = n
			if !isSym(capV) {
				c = asInt64(capV)
			}
			usedIntrinsics["make: symbolic capacity modelled as cap=len"]++
		} else {
			n, c = asInt64(lenV), asInt64(capV)
			if n < 0 || c < n {
				panic(targetPanic{runtimeErr("makeslice: len out of range")})
			}
			if c > allocViolation {
				theEx.allocBomb(c)
			}
		}
		sl := make([]value, c)
		tElt := instr.Type().Underlying().(*types.Slice).Elem()
		for i := range sl {
			sl[i] = zero(tElt)
		}
		if !trailOn && c > 0 {
			mon.setupArrays[&sl[0]] = true
		}
		fr.env[instr] = sl[:n]

	case *ssa.MakeMap:
		if instr.Reserve != nil {
			rv := fr.get(instr.Reserve)
			if s, ok := rv.(*Sym); ok {
				theEx.allocCheck(mkSExtTo64(s.t, true), false)
			} else if n := asInt64(rv); n > allocViolation {
				theEx.allocBomb(n)
			}
		}
		fr.env[instr] = makeMap(instr.Type().Underlying().(*types.Map).Key(), 0)

	case *ssa.Range:
		if m, ok := fr.get(instr.X).(*omap); ok {
			monMap(m, false, fr)
		}
		fr.env[instr] = rangeIter(fr.get(instr.X), instr.X.Type())

	case *ssa.Next:
		fr.env[instr] = fr.get(instr.Iter).(iter).next()

	case *ssa.FieldAddr:
		p := fr.get(instr.X).(*value)
		if p == nil {
			nilDeref()
		}
		fr.env[instr] = &(*p).(structure)[instr.Field]
		if fieldLogOn {
			noteFieldAddr(mustDeref(instr.X.Type()), (*p).(structure), instr.Field, &(*p).(structure)[instr.Field])
		}

	case *ssa.Field:
		fr.env[instr] = fr.get(instr.X).(structure)[instr.Field]

	case *ssa.IndexAddr:
		x := fr.get(instr.X)
		idx := fr.get(instr.Index)
		var cells []value
		switch x := x.(type) {
		case []value:
			cells = x
		case *value: // *array
			if x == nil {
				nilDeref()
			}
			cells = (*x).(array)
		case *decbytes:
			theEx.unsupported("indexing of opaque decimal bytes")
		default:
			panic(fmt.Sprintf("unexpected x type in IndexAddr: %T", x))
		}
		it, k, sym := idxTerm(instr.Index, idx)
		if sym {
			inRange := mkAnd(mkCmp(OpSle, mkConst(64, 0), it), mkCmp(OpSlt, it, mkConst(64, uint64(len(cells)))))
			theEx.panicIf(mkNot(inRange), "index out of range")
			fr.env[instr] = symaddr{base: cells, idx: it}
		} else {
			if k < 0 || k >= int64(len(cells)) {
				indexPanic(k, len(cells))
			}
			fr.env[instr] = &cells[k]
		}

	case *ssa.Index:
		x := fr.get(instr.X)
		idx := fr.get(instr.Index)
		var cells []value
		switch x := x.(type) {
		case array:
			cells = x
		case string:
			it, k, sym := idxTerm(instr.Index, idx)
			if !sym {
				if k < 0 || k >= int64(len(x)) {
					indexPanic(k, len(x))
				}
				fr.env[instr] = x[k]
				return kNext
			}
			_ = it
			cells, _ = strCells(x)
		case symstr:
			cells = x.b
		case decstr:
			theEx.unsupported("indexing of opaque decimal text")
		default:
			panic(fmt.Sprintf("unexpected x type in Index: %T", x))
		}
		it, k, sym := idxTerm(instr.Index, idx)
		if sym {
			inRange := mkAnd(mkCmp(OpSle, mkConst(64, 0), it), mkCmp(OpSlt, it, mkConst(64, uint64(len(cells)))))
			theEx.panicIf(mkNot(inRange), "index out of range")
			fr.env[instr] = selectCell(instr.Type(), cells, it)
		} else {
			if k < 0 || k >= int64(len(cells)) {
				indexPanic(k, len(cells))
			}
			fr.env[instr] = cells[k]
		}

	case *ssa.Lookup:
		x := fr.get(instr.X)
		switch xs := x.(type) {
		case string, symstr:
			// string indexing via Lookup
			cells, _ := strCells(xs)
			it, k, sym := idxTerm(instr.Index, fr.get(instr.Index))
			if sym {
				inRange := mkAnd(mkCmp(OpSle, mkConst(64, 0), it), mkCmp(OpSlt, it, mkConst(64, uint64(len(cells)))))
				theEx.panicIf(mkNot(inRange), "index out of range")
				fr.env[instr] = selectCell(types.Typ[types.Uint8], cells, it)
			} else {
				if k < 0 || k >= int64(len(cells)) {
					indexPanic(k, len(cells))
				}
				fr.env[instr] = cells[k]
			}
		default:
			fr.env[instr] = lookup(instr, x, fr.get(instr.Index))
		}

	case *ssa.MapUpdate:
		m := fr.get(instr.Map).(*omap)
		if m == nil {
			panic(targetPanic{runtimeErr("assignment to entry in nil map")})
		}
		monMap(m, true, fr)
		m.insert(fr.get(instr.Key), copyVal(fr.get(instr.Value)))

	case *ssa.TypeAssert:
		fr.env[instr] = typeAssert(fr.i, instr, fr.get(instr.X).(iface))

	case *ssa.MakeClosure:
		var bindings []value
		for _, binding := range instr.Bindings {
			bindings = append(bindings, fr.get(binding))
		}
		fr.env[instr] = &closure{instr.Fn.(*ssa.Function), bindings}

	case *ssa.Phi:
		panic("unreachable: phis are processed at block entry")

	case *ssa.Select:
		fr.env[instr] = doSelect(fr, instr)

	default:
		panic(fmt.Sprintf("unexpected instruction: %T", instr))
	}
	return kNext
}

// doSelect implements select over model channels.
func doSelect(fr *frame, instr *ssa.Select) value {
	for {
		var ready []int
		for i, st := range instr.States {
			c, _ := fr.get(st.Chan).(*gchan)
			if c == nil {
				continue
			}
			if st.Dir == types.RecvOnly {
				if c.canRecv() {
					ready = append(ready, i)
				}
			} else if c.canSend() {
				ready = append(ready, i)
			}
		}
		chosen := -1
		if len(ready) > 0 {
			chosen = ready[theEx.choose(len(ready), "select")]
		} else if instr.Blocking {
			if theEx.env("select") {
				continue
			}
			theEx.blocked("select with no ready case")
		}
		recvOk := false
		var recvVal value
		if chosen >= 0 {
			st := instr.States[chosen]
			c := fr.get(st.Chan).(*gchan)
			if st.Dir == types.RecvOnly {
				recvVal, recvOk = c.recv()
			} else {
				c.send(fr.get(st.Send))
			}
		}
		r := tuple{chosen, recvOk}
		for i, st := range instr.States {
			if st.Dir == types.RecvOnly {
				var v value
				if i == chosen && recvOk {
					v = recvVal
				} else {
					v = zero(st.Chan.Type().Underlying().(*types.Chan).Elem())
				}
				r = append(r, v)
			}
		}
		return r
	}
}

func prepareCall(fr *frame, call *ssa.CallCommon) (fn value, args []value) {
	v := fr.get(call.Value)
	if call.Method == nil {
		fn = v
	} else {
		recv := v.(iface)
		if recv.t == nil {
			panic(targetPanic{runtimeErr("invalid memory address or nil pointer dereference (method call on nil interface)")})
		}
		if st, ok := recv.v.(stubObject); ok {
			fn = stubMethod{st, call.Method}
		} else if f := lookupMethod(fr.i, recv.t, call.Method); f == nil {
			panic(fmt.Sprintf("method set for dynamic type %v does not contain %s", recv.t, call.Method))
		} else {
			fn = f
		}
		args = append(args, recv.v)
	}
	for _, arg := range call.Args {
		args = append(args, copyVal(fr.get(arg)))
	}
	return
}

// stubObject is the value of an opaque object whose methods are no-ops
// returning zero values (loggers, contexts).
type stubObject struct{ name string }

type stubMethod struct {
	obj  stubObject
	meth *types.Func
}

func call(i *interpreter, caller *frame, callpos token.Pos, fn value, args []value) value {
	switch fn := fn.(type) {
	case *ssa.Function:
		if fn == nil {
			panic(targetPanic{runtimeErr("invalid memory address or nil pointer dereference (call of nil func)")})
		}
		return callSSA(i, caller, callpos, fn, args, nil)
	case *closure:
		return callSSA(i, caller, callpos, fn.Fn, args, fn.Env)
	case *ssa.Builtin:
		return callBuiltin(caller, callpos, fn, args)
	case stubMethod:
		sig := fn.meth.Type().(*types.Signature)
		return zeroResults(sig)
	}
	panic(fmt.Sprintf("cannot call %T", fn))
}

func zeroResults(sig *types.Signature) value {
	switch sig.Results().Len() {
	case 0:
		return nil
	case 1:
		return zero(sig.Results().At(0).Type())
	}
	return zero(sig.Results())
}

func callSSA(i *interpreter, caller *frame, callpos token.Pos, fn *ssa.Function, args []value, env []value) value {
	if i.funcsEntered != nil {
		i.funcsEntered[fn]++
	}
	fr := &frame{
		i:       i,
		caller:  caller,
		fn:      fn,
		callpos: callpos,
	}
	if i.tracing {
		fmt.Fprintf(os.Stderr, "%s> %s\n", strings.Repeat(" ", i.depth), fn)
		i.depth++
		defer func() { i.depth-- }()
	}
	if fn.Pkg != nil && fn.Name() == "init" && fn.Synthetic != "" && fn.Pkg != i.mainPkg && !initPackages[fn.Pkg.Pkg.Path()] {
		return nil // package initialiser outside the allow-list: not run
	}
	if fn.Parent() == nil {
		name := fn.String()
		if ext := externals[name]; ext != nil {
			if r := ext(fr, args); r != value(notHandled) {
				usedIntrinsics[name]++
				return r
			}
		}
		if pkg := fn.Package(); pkg != nil {
			if stubbedPackages[pkg.Pkg.Path()] {
				return stubCall(fr, fn, args)
			}
		}
		if fn.Blocks == nil {
			if ext := externalsNoBody[name]; ext != nil {
				return ext(fr, args)
			}
			if i.inInit {
				return zeroResults(fn.Signature)
			}
			if os.Getenv("GOSYM_DEBUG") != "" {
				fmt.Fprintln(os.Stderr, "no code for", name, stackOf(caller))
			}
			theEx.unsupported("no code for function: " + name)
		}
	} else if fn.Blocks == nil {
		theEx.unsupported("no code for function: " + fn.String())
	}
	if ext := externalsMethods[fn.String()]; ext != nil {
		return ext(fr, args)
	}
	if schedPointFuncs[fn.String()] {
		// section boundary of the strand under test: other clients may act here
		theEx.env("lock")
	}

	if fn.TypeParams().Len() > 0 && len(fn.TypeArgs()) == 0 {
		panic("generic function body reached without instantiation: " + fn.String())
	}
	i.depthGuard++
	if i.depthGuard > 2000 {
		theEx.abort("depth-limit", "call depth exceeds 2000 in "+fn.String())
	}
	defer func() { i.depthGuard-- }()

	fr.env = make(map[ssa.Value]value)
	fr.block = fn.Blocks[0]
	fr.locals = make([]value, len(fn.Locals))
	for i, l := range fn.Locals {
		fr.locals[i] = zero(mustDeref(l.Type()))
		fr.env[l] = &fr.locals[i]
	}
	for i, p := range fn.Params {
		fr.env[p] = args[i]
	}
	for i, fv := range fn.FreeVars {
		fr.env[fv] = env[i]
	}
	for fr.block != nil {
		runFrame(fr)
	}
	return fr.result
}

func runFrame(fr *frame) {
	defer func() {
		if fr.block == nil {
			return // normal return
		}
		r := recover()
		if isEngineAbort(r) {
			panic(r)
		}
		if _, ok := r.(targetPanic); !ok {
			// an interpreter crash: report with position
			pos := ""
			if fr.block != nil {
				pos = fr.fn.String()
			}
			panic(engineFault{fmt.Sprintf("%v (in %s)", r, pos), stackOf(fr)})
		}
		if tp, ok := r.(targetPanic); ok && lastPanic != tp.v {
			lastPanic = tp.v
			lastPanicStack = stackOf(fr)
			if b := fr.block; b != nil {
				lastPanicStack = fmt.Sprintf("\n    [block %d of %s]", b.Index, fr.fn) + lastPanicStack
			}
		}
		fr.panicking = true
		fr.panic = r
		fr.runDefers()
		fr.block = fr.fn.Recover
		if fr.block == nil {
			fr.result = zeroResults(fr.fn.Signature)
		}
	}()

	for {
		nonPhis := executePhis(fr)
		for _, instr := range nonPhis {
			if fr.i.tracing {
				if v, ok := instr.(ssa.Value); ok {
					fmt.Fprintln(os.Stderr, strings.Repeat(" ", fr.i.depth), v.Name(), "=", instr)
				} else {
					fmt.Fprintln(os.Stderr, strings.Repeat(" ", fr.i.depth), instr)
				}
			}
			if visitInstr(fr, instr) == kReturn {
				return
			}
		}
	}
}

var (
	lastPanic      value
	lastPanicStack string
)

func stackOf(fr *frame) string {
	var sb strings.Builder
	for f := fr; f != nil; f = f.caller {
		fmt.Fprintf(&sb, "\n    %s", f.fn)
		if f.callpos.IsValid() {
			fmt.Fprintf(&sb, " (called at %s)", f.i.prog.Fset.Position(f.callpos))
		}
	}
	return sb.String()
}

func executePhis(fr *frame) []ssa.Instruction {
	firstNonPhi := -1
	for i, instr := range fr.block.Instrs {
		if _, ok := instr.(*ssa.Phi); !ok {
			firstNonPhi = i
			break
		}
	}
	nonPhis := fr.block.Instrs[firstNonPhi:]
	if firstNonPhi > 0 {
		phis := fr.block.Instrs[:firstNonPhi]
		predIndex := slices.Index(fr.block.Preds, fr.prevBlock)
		fr.phitemps = fr.phitemps[:0]
		for _, phi := range phis {
			phi := phi.(*ssa.Phi)
			fr.phitemps = append(fr.phitemps, fr.get(phi.Edges[predIndex]))
		}
		for i, phi := range phis {
			fr.env[phi.(*ssa.Phi)] = fr.phitemps[i]
		}
	}
	return nonPhis
}

func doRecover(caller *frame) value {
	if caller != nil && !caller.panicking &&
		caller.caller != nil && caller.caller.panicking {
		caller.caller.panicking = false
		p := caller.caller.panic
		caller.caller.panic = nil
		switch p := p.(type) {
		case targetPanic:
			return p.v
		default:
			panic(fmt.Sprintf("unexpected panic type %T in target call to recover()", p))
		}
	}
	return iface{}
}

// growCap mirrors runtime.growslice's capacity computation (go1.23).
func growCap(oldCap, newLen int, tElt types.Type) int {
	newcap := oldCap
	doublecap := newcap + newcap
	if newLen > doublecap {
		newcap = newLen
	} else {
		const threshold = 256
		if oldCap < threshold {
			newcap = doublecap
		} else {
			for {
				newcap += (newcap + 3*threshold) >> 2
				if uint(newcap) >= uint(newLen) {
					break
				}
			}
		}
	}
	esz := int(theInterp.sizes.Sizeof(tElt))
	if esz == 0 {
		return newcap
	}
	mem := roundupsize(newcap*esz, !hasPointers(tElt))
	return mem / esz
}

var classToSize = []int{0, 8, 16, 24, 32, 48, 64, 80, 96, 112, 128, 144, 160, 176, 192, 208, 224, 240, 256, 288, 320, 352, 384, 416, 448, 480, 512, 576, 640, 704, 768, 896, 1024, 1152, 1280, 1408, 1536, 1792, 2048, 2304, 2688, 3072, 3200, 3456, 4096, 4864, 5376, 6144, 6528, 6784, 6912, 8192, 9472, 9728, 10240, 10880, 12288, 13568, 14336, 16384, 18432, 19072, 20480, 21760, 24576, 27264, 28672, 32768}

func roundupsize(size int, noscan bool) int {
	req := size
	if !noscan && size > 512 {
		req += 8
	}
	if req <= 32768-8 || (noscan && req <= 32768) {
		for _, c := range classToSize[1:] {
			if c >= req {
				return c - (req - size)
			}
		}
	}
	// large: round up to page size
	const page = 8192
	return (size + page - 1) / page * page
}

func hasPointers(t types.Type) bool {
	switch t := t.Underlying().(type) {
	case *types.Basic:
		return t.Kind() == types.String || t.Kind() == types.UnsafePointer
	case *types.Array:
		return hasPointers(t.Elem())
	case *types.Struct:
		for i := 0; i < t.NumFields(); i++ {
			if hasPointers(t.Field(i).Type()) {
				return true
			}
		}
		return false
	}
	return true
}
