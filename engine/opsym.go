package main

// Symbolic-aware operators.  Each operator first looks for symbolic
// operands; otherwise it falls through to the concrete implementation
// taken from x/tools' ssa/interp (ops.go).

import (
	"fmt"
	"go/token"
	"go/types"
	"os"

	"golang.org/x/tools/go/ssa"
)

func mustDeref(t types.Type) types.Type {
	if p, ok := t.Underlying().(*types.Pointer); ok {
		return p.Elem()
	}
	panic(fmt.Sprintf("mustDeref: %s is not a pointer", t))
}

// intInfo returns width and signedness of an integer/bool type.
func intInfo(t types.Type) (w int, signed bool, ok bool) {
	b, isBasic := t.Underlying().(*types.Basic)
	if !isBasic {
		return 0, false, false
	}
	switch b.Kind() {
	case types.Bool, types.UntypedBool:
		return 0, false, true
	case types.Int, types.Int64, types.UntypedInt:
		return 64, true, true
	case types.Int8:
		return 8, true, true
	case types.Int16:
		return 16, true, true
	case types.Int32, types.UntypedRune:
		return 32, true, true
	case types.Uint, types.Uint64, types.Uintptr:
		return 64, false, true
	case types.Uint8:
		return 8, false, true
	case types.Uint16:
		return 16, false, true
	case types.Uint32:
		return 32, false, true
	}
	return 0, false, false
}

func isString(t types.Type) bool {
	b, ok := t.Underlying().(*types.Basic)
	return ok && b.Info()&types.IsString != 0
}

func isSym(v value) bool {
	_, ok := v.(*Sym)
	return ok
}

func isSymStr(v value) bool {
	switch v.(type) {
	case symstr, decstr:
		return true
	}
	return false
}

// toTerm converts integer/bool value v to a term (width from dynamic type).
func toTerm(v value) *Term {
	switch v := v.(type) {
	case *Sym:
		return v.t
	case bool:
		return mkBool(v)
	case int:
		return mkConst(64, uint64(v))
	case int8:
		return mkConst(8, uint64(v))
	case int16:
		return mkConst(16, uint64(v))
	case int32:
		return mkConst(32, uint64(v))
	case int64:
		return mkConst(64, uint64(v))
	case uint:
		return mkConst(64, uint64(v))
	case uint8:
		return mkConst(8, uint64(v))
	case uint16:
		return mkConst(16, uint64(v))
	case uint32:
		return mkConst(32, uint64(v))
	case uint64:
		return mkConst(64, v)
	case uintptr:
		return mkConst(64, uint64(v))
	}
	panic(fmt.Sprintf("toTerm: unexpected %T", v))
}

// fromTerm converts a term back to a value of type t (concrete if const).
func fromTerm(t types.Type, x *Term) value {
	if x.op != OpConst {
		return &Sym{x}
	}
	return concreteOf(t, x.val)
}

func concreteOf(t types.Type, v uint64) value {
	b := t.Underlying().(*types.Basic)
	switch b.Kind() {
	case types.Bool, types.UntypedBool:
		return v != 0
	case types.Int, types.UntypedInt:
		return int(v)
	case types.Int8:
		return int8(v)
	case types.Int16:
		return int16(v)
	case types.Int32, types.UntypedRune:
		return int32(v)
	case types.Int64:
		return int64(v)
	case types.Uint:
		return uint(v)
	case types.Uint8:
		return uint8(v)
	case types.Uint16:
		return uint16(v)
	case types.Uint32:
		return uint32(v)
	case types.Uint64:
		return uint64(v)
	case types.Uintptr:
		return uintptr(v)
	}
	panic(fmt.Sprintf("concreteOf: unexpected type %s", t))
}

func boolValue(x *Term) value {
	if x.op == OpConst {
		return x.val != 0
	}
	return &Sym{x}
}

// binop implements binary operators with symbolic support.
func binop(instr *ssa.BinOp, x, y value) value {
	op := instr.Op
	t := instr.X.Type()
	switch op {
	case token.EQL:
		return boolValue(eqnilT(t, x, y))
	case token.NEQ:
		return boolValue(mkNot(eqnilT(t, x, y)))
	}
	xs, ys := isSym(x), isSym(y)
	if xs || ys {
		return symBinop(op, t, instr.Y.Type(), x, y)
	}
	if isSymStr(x) || isSymStr(y) {
		return strBinop(op, x, y)
	}
	// division by zero is a Go panic, not an interpreter crash
	if op == token.QUO || op == token.REM {
		if _, _, isInt := intInfo(t); isInt {
			if asInt64(y) == 0 {
				panic(targetPanic{runtimeErr("integer divide by zero")})
			}
		}
	}
	return binopC(op, t, x, y)
}

func symBinop(op token.Token, tx, ty types.Type, x, y value) value {
	w, signed, ok := intInfo(tx)
	if !ok {
		theEx.unsupported(fmt.Sprintf("symbolic operand of non-integer type %s", tx))
	}
	a := toTerm(x)
	b := toTerm(y)
	if w == 0 {
		theEx.unsupported("binary operator on symbolic bool: " + op.String())
	}
	switch op {
	case token.SHL, token.SHR:
		// shift count may have a different type
		wy, sy, _ := intInfo(ty)
		if sy {
			neg := mkCmp(OpSlt, b, mkConst(wy, 0))
			theEx.panicIf(neg, "negative shift amount")
		}
		// bring b to width w (saturating: anything >= w behaves the same)
		var bb *Term
		if wy > w {
			big := mkCmp(OpUle, mkConst(wy, uint64(w)), b)
			bb = mkIte(big, mkConst(w, uint64(w)), mkExtract(b, w-1, 0))
		} else {
			bb = mkZExt(b, w)
		}
		switch {
		case op == token.SHL:
			return fromTerm(tx, mkBin(OpShl, a, bb))
		case signed:
			return fromTerm(tx, mkBin(OpAShr, a, bb))
		default:
			return fromTerm(tx, mkBin(OpLShr, a, bb))
		}
	}
	if a.w != b.w {
		panic(fmt.Sprintf("symBinop %s: width mismatch %d vs %d (%s)", op, a.w, b.w, tx))
	}
	switch op {
	case token.ADD:
		return fromTerm(tx, mkBin(OpAdd, a, b))
	case token.SUB:
		return fromTerm(tx, mkBin(OpSub, a, b))
	case token.MUL:
		return fromTerm(tx, mkBin(OpMul, a, b))
	case token.QUO, token.REM:
		theEx.panicIf(mkEq(b, mkConst(w, 0)), "integer divide by zero")
		var o Op
		switch {
		case op == token.QUO && signed:
			o = OpSDiv
		case op == token.QUO:
			o = OpUDiv
		case signed:
			o = OpSRem
		default:
			o = OpURem
		}
		return fromTerm(tx, mkBin(o, a, b))
	case token.AND:
		return fromTerm(tx, mkBin(OpAnd, a, b))
	case token.OR:
		return fromTerm(tx, mkBin(OpOr, a, b))
	case token.XOR:
		return fromTerm(tx, mkBin(OpXor, a, b))
	case token.AND_NOT:
		return fromTerm(tx, mkBin(OpAnd, a, mkUn(OpNot, b)))
	case token.LSS:
		if signed {
			return boolValue(mkCmp(OpSlt, a, b))
		}
		return boolValue(mkCmp(OpUlt, a, b))
	case token.LEQ:
		if signed {
			return boolValue(mkCmp(OpSle, a, b))
		}
		return boolValue(mkCmp(OpUle, a, b))
	case token.GTR:
		if signed {
			return boolValue(mkCmp(OpSlt, b, a))
		}
		return boolValue(mkCmp(OpUlt, b, a))
	case token.GEQ:
		if signed {
			return boolValue(mkCmp(OpSle, b, a))
		}
		return boolValue(mkCmp(OpUle, b, a))
	}
	panic(fmt.Sprintf("symBinop: unhandled op %s", op))
}

// strLess returns the term for lexicographic x < y.
func strLess(x, y value, orEqual bool) *Term {
	xc, ok1 := strCells(x)
	yc, ok2 := strCells(y)
	if !ok1 || !ok2 {
		theEx.unsupported("ordering comparison on opaque decimal string")
	}
	// build from the end
	n := len(xc)
	if len(yc) < n {
		n = len(yc)
	}
	var res *Term
	if len(xc) < len(yc) {
		res = tTrue
	} else if len(xc) == len(yc) {
		res = mkBool(orEqual)
	} else {
		res = tFalse
	}
	for i := n - 1; i >= 0; i-- {
		a, b := byteTerm(xc[i]), byteTerm(yc[i])
		res = mkIte(mkEq(a, b), res, mkCmp(OpUlt, a, b))
	}
	return res
}

func concatStr(x, y value) value {
	if xs, ok := x.(string); ok {
		if xs == "" {
			return y
		}
		if ys, ok := y.(string); ok {
			return xs + ys
		}
	}
	if ys, ok := y.(string); ok && ys == "" {
		return x
	}
	if d, ok := x.(decstr); ok {
		x = symstr{expandDec(d.x)}
	}
	if d, ok := y.(decstr); ok {
		y = symstr{expandDec(d.x)}
	}
	xc, ok1 := strCells(x)
	yc, ok2 := strCells(y)
	if !ok1 || !ok2 {
		theEx.unsupported("concatenation with opaque text")
	}
	out := make([]value, 0, len(xc)+len(yc))
	out = append(out, xc...)
	out = append(out, yc...)
	return normStr(out)
}

// normStr returns a Go string when all cells are concrete.
func normStr(cells []value) value {
	for _, c := range cells {
		if _, ok := c.(uint8); !ok {
			cp := make([]value, len(cells))
			copy(cp, cells)
			return symstr{cp}
		}
	}
	b := make([]byte, len(cells))
	for i, c := range cells {
		b[i] = c.(uint8)
	}
	return string(b)
}

func strBinop(op token.Token, x, y value) value {
	switch op {
	case token.ADD:
		return concatStr(x, y)
	case token.LSS:
		return boolValue(strLess(x, y, false))
	case token.LEQ:
		return boolValue(strLess(x, y, true))
	case token.GTR:
		return boolValue(strLess(y, x, false))
	case token.GEQ:
		return boolValue(strLess(y, x, true))
	}
	panic(fmt.Sprintf("strBinop: unhandled op %s", op))
}

// eqnilT is eqnil returning a term.
func eqnilT(t types.Type, x, y value) *Term {
	switch t.Underlying().(type) {
	case *types.Map, *types.Signature, *types.Slice:
		if _, ok := x.(*decbytes); ok {
			return tFalse // non-nil slice compared with nil
		}
		if _, ok := y.(*decbytes); ok {
			return tFalse
		}
		return mkBool(eqnil(t, x, y))
	}
	return symEquals(t, x, y)
}

func unop(instr *ssa.UnOp, x value) value {
	switch instr.Op {
	case token.ARROW: // receive
		c := x.(*gchan)
		v, ok := chanRecv(c)
		if !ok {
			v = zero(instr.X.Type().Underlying().(*types.Chan).Elem())
		}
		if instr.CommaOk {
			v = tuple{v, ok}
		}
		return v
	case token.MUL:
		switch p := x.(type) {
		case *value:
			if p == nil {
				panic(targetPanic{runtimeErr("invalid memory address or nil pointer dereference")})
			}
			if mon.on {
				monRead(p, curFrame)
			}
			return load(mustDeref(instr.X.Type()), p)
		case symaddr:
			if mon.on && len(p.base) > 0 {
				monRead(&p.base[0], curFrame)
			}
			return loadSymAddr(mustDeref(instr.X.Type()), p)
		}
		panic(fmt.Sprintf("unop *: unexpected %T", x))
	case token.NOT:
		if s, ok := x.(*Sym); ok {
			return boolValue(mkNot(s.t))
		}
		return !x.(bool)
	case token.SUB:
		if s, ok := x.(*Sym); ok {
			return fromTerm(instr.X.Type(), mkUn(OpNeg, s.t))
		}
		switch x := x.(type) {
		case int:
			return -x
		case int8:
			return -x
		case int16:
			return -x
		case int32:
			return -x
		case int64:
			return -x
		case uint:
			return -x
		case uint8:
			return -x
		case uint16:
			return -x
		case uint32:
			return -x
		case uint64:
			return -x
		case uintptr:
			return -x
		case float32:
			return -x
		case float64:
			return -x
		case complex64:
			return -x
		case complex128:
			return -x
		}
	case token.XOR:
		if s, ok := x.(*Sym); ok {
			return fromTerm(instr.X.Type(), mkUn(OpNot, s.t))
		}
		switch x := x.(type) {
		case int:
			return ^x
		case int8:
			return ^x
		case int16:
			return ^x
		case int32:
			return ^x
		case int64:
			return ^x
		case uint:
			return ^x
		case uint8:
			return ^x
		case uint16:
			return ^x
		case uint32:
			return ^x
		case uint64:
			return ^x
		case uintptr:
			return ^x
		}
	}
	panic(fmt.Sprintf("invalid unary op %s %T", instr.Op, x))
}

// chanRecv receives from c in the single-threaded model.
func chanRecv(c *gchan) (value, bool) {
	if c == nil {
		theEx.blocked("receive from nil channel")
	}
	for {
		if v, ok := c.recv(); ok {
			return v, true
		}
		if c.closed {
			return nil, false
		}
		if !theEx.env("recv") {
			theEx.blocked("receive on empty channel")
		}
	}
}

func chanSend(c *gchan, v value) {
	if c == nil {
		theEx.blocked("send to nil channel")
	}
	for !c.canSend() {
		if !theEx.env("send") {
			theEx.blocked("send on full channel")
		}
	}
	c.send(v)
}

// typeAssert checks whether dynamic type of itf is instr.AssertedType.
func typeAssert(i *interpreter, instr *ssa.TypeAssert, itf iface) value {
	var v value
	err := ""
	if itf.t == nil {
		err = fmt.Sprintf("interface conversion: interface is nil, not %s", instr.AssertedType)
	} else if idst, ok := instr.AssertedType.Underlying().(*types.Interface); ok {
		v = itf
		err = checkInterface(i, idst, itf)
	} else if types.Identical(itf.t, instr.AssertedType) {
		v = itf.v // extract value
	} else {
		err = fmt.Sprintf("interface conversion: interface is %s, not %s", itf.t, instr.AssertedType)
	}
	if err != "" {
		if !instr.CommaOk {
			panic(targetPanic{runtimeErr(err)})
		}
		return tuple{zero(instr.AssertedType), false}
	}
	if instr.CommaOk {
		return tuple{v, true}
	}
	return v
}

// conv converts x from t_src to t_dst with symbolic support.
func conv(t_dst, t_src types.Type, x value) value {
	ut_src := t_src.Underlying()
	ut_dst := t_dst.Underlying()
	switch xv := x.(type) {
	case *Sym:
		ws, ss, ok1 := intInfo(ut_src)
		wd, _, ok2 := intInfo(ut_dst)
		if !ok1 || !ok2 || ws == 0 || wd == 0 {
			if isString(ut_dst) {
				theEx.unsupported("conversion of symbolic integer to string")
			}
			theEx.unsupported(fmt.Sprintf("conversion of symbolic %s to %s", t_src, t_dst))
		}
		var r *Term
		switch {
		case wd == ws:
			r = xv.t
		case wd < ws:
			r = mkExtract(xv.t, wd-1, 0)
		case ss:
			r = mkSExt(xv.t, wd)
		default:
			r = mkZExt(xv.t, wd)
		}
		return fromTerm(t_dst, r)
	case symstr:
		switch d := ut_dst.(type) {
		case *types.Basic:
			if d.Info()&types.IsString != 0 {
				return x
			}
		case *types.Slice:
			switch d.Elem().Underlying().(*types.Basic).Kind() {
			case types.Byte:
				out := make([]value, len(xv.b))
				copy(out, xv.b)
				return out
			case types.Rune:
				out := make([]value, len(xv.b))
				for i, c := range xv.b {
					out[i] = byteToRune(c)
				}
				return out
			}
		}
	case decstr:
		switch d := ut_dst.(type) {
		case *types.Basic:
			if d.Info()&types.IsString != 0 {
				return x
			}
		case *types.Slice:
			if d.Elem().Underlying().(*types.Basic).Kind() == types.Byte {
				return &decbytes{xv.x}
			}
		}
		theEx.unsupported("conversion of opaque decimal string")
	case *decbytes:
		if isString(ut_dst) {
			return decstr{xv.x}
		}
		theEx.unsupported("conversion of opaque decimal bytes")
	case []value:
		if s, ok := ut_src.(*types.Slice); ok && isString(ut_dst) {
			if mon.on && len(xv) > 0 {
				monRead(&xv[0], curFrame)
			}
			switch s.Elem().Underlying().(*types.Basic).Kind() {
			case types.Byte:
				return normStr(xv)
			case types.Rune:
				// runes -> string: only ASCII symbolic runes supported
				cells := make([]value, 0, len(xv))
				allConc := true
				for _, r := range xv {
					if _, ok := r.(*Sym); ok {
						allConc = false
					}
				}
				if allConc {
					break
				}
				for _, r := range xv {
					switch r := r.(type) {
					case int32:
						if r >= 0x80 || r < 0 {
							theEx.unsupported("non-ASCII rune in symbolic rune slice")
						}
						cells = append(cells, uint8(r))
					case *Sym:
						ascii := mkCmp(OpUlt, r.t, mkConst(32, 0x80))
						if !theEx.decide(ascii, "ascii") {
							theEx.unsupported("non-ASCII rune in symbolic rune slice")
						}
						cells = append(cells, &Sym{mkExtract(r.t, 7, 0)})
					}
				}
				return normStr(cells)
			}
		}
	}
	return convC(t_dst, t_src, x)
}

// slice returns x[lo:hi:max].  Any of lo, hi and max may be nil.
func slice(instr *ssa.Slice, x, lo, hi, max value) value {
	var Len, Cap int
	switch x := x.(type) {
	case string:
		Len = len(x)
		Cap = Len
	case symstr:
		Len = len(x.b)
		Cap = Len
	case []value:
		Len = len(x)
		Cap = cap(x)
	case *value: // *array
		if x == nil {
			panic(targetPanic{runtimeErr("invalid memory address or nil pointer dereference")})
		}
		a := (*x).(array)
		Len = len(a)
		Cap = cap(a)
	case decstr, *decbytes:
		if lo == nil && hi == nil && max == nil {
			return x
		}
		theEx.unsupported("slicing of opaque decimal text")
	default:
		panic(fmt.Sprintf("slice: unexpected X type: %T", x))
	}

	// symbolic bounds: state the in-range obligation, then concretise
	// within [0, Cap].
	l, h, m := int64(0), int64(Len), int64(Cap)
	var lt, ht, mt *Term
	anySym := false
	get := func(v value, def int64) (*Term, int64) {
		if v == nil {
			return mkConst(64, uint64(def)), def
		}
		if s, ok := v.(*Sym); ok {
			anySym = true
			return mkSExtTo64(s.t, true), 0
		}
		n := asInt64(v)
		return mkConst(64, uint64(n)), n
	}
	lt, l = get(lo, 0)
	ht, h = get(hi, int64(Len))
	mt, m = get(max, int64(Cap))
	if anySym {
		limit := mkConst(64, uint64(Cap))
		okc := mkAnd(
			mkCmp(OpSle, mkConst(64, 0), lt),
			mkCmp(OpSle, lt, ht),
			mkCmp(OpSle, ht, mt),
			mkCmp(OpSle, mt, limit))
		theEx.panicIf(mkNot(okc), "slice bounds out of range")
		l = theEx.concretize(lt, 0, int64(Cap), "slice-lo")
		h = theEx.concretize(ht, l, int64(Cap), "slice-hi")
		m = theEx.concretize(mt, h, int64(Cap), "slice-max")
	} else {
		if l < 0 || l > h || h > m || m > int64(Cap) {
			panic(targetPanic{runtimeErr(fmt.Sprintf("slice bounds out of range [%d:%d:%d] with capacity %d", l, h, m, Cap))})
		}
	}

	switch x := x.(type) {
	case string:
		return x[l:h]
	case symstr:
		return normStr(x.b[l:h])
	case []value:
		if x == nil {
			return x
		}
		return x[l:h:m]
	case *value: // *array
		a := (*x).(array)
		return []value(a)[l:h:m]
	}
	panic("unreachable")
}

func mkSExtTo64(t *Term, signed bool) *Term {
	if t.w == 64 {
		return t
	}
	if signed {
		return mkSExt(t, 64)
	}
	return mkZExt(t, 64)
}

// idxTerm returns the index as a 64-bit term plus its concrete value.
func idxTerm(instrIdx ssa.Value, idx value) (*Term, int64, bool) {
	if s, ok := idx.(*Sym); ok {
		_, signed, _ := intInfo(instrIdx.Type())
		return mkSExtTo64(s.t, signed), 0, true
	}
	return nil, asInt64(idx), false
}

func indexPanic(i int64, n int) {
	panic(targetPanic{runtimeErr(fmt.Sprintf("index out of range [%d] with length %d", i, n))})
}

// isScalarCells reports whether all cells can be combined with ite.
func scalarCells(cells []value) bool {
	for _, c := range cells {
		switch c.(type) {
		case *Sym, bool, int, int8, int16, int32, int64, uint, uint8, uint16, uint32, uint64, uintptr:
		default:
			return false
		}
	}
	return true
}

// selectCell returns cells[idx] for symbolic idx (already in range).
func selectCell(t types.Type, cells []value, idx *Term) value {
	if len(cells) == 0 {
		panic("selectCell on empty")
	}
	if _, _, isInt := intInfo(t); isInt && scalarCells(cells) {
		res := toTerm(cells[len(cells)-1])
		for i := len(cells) - 2; i >= 0; i-- {
			res = mkIte(mkEq(idx, mkConst(64, uint64(i))), toTerm(cells[i]), res)
		}
		return fromTerm(t, res)
	}
	k := theEx.concretize(idx, 0, int64(len(cells)-1), "index")
	return cells[k]
}

func loadSymAddr(t types.Type, p symaddr) value {
	return selectCell(t, p.base, p.idx)
}

func storeSymAddr(t types.Type, p symaddr, v value) {
	if _, _, isInt := intInfo(t); isInt && scalarCells(p.base) {
		nv := toTerm(v)
		for i := range p.base {
			old := toTerm(p.base[i])
			setCell(&p.base[i], fromTerm(t, mkIte(mkEq(p.idx, mkConst(64, uint64(i))), nv, old)))
		}
		return
	}
	k := theEx.concretize(p.idx, 0, int64(len(p.base)-1), "index")
	store(t, &p.base[k], v)
}

// lookup returns x[idx] where x is a map.
func lookup(instr *ssa.Lookup, x, idx value) value {
	switch x := x.(type) {
	case *omap:
		monMap(x, false, curFrame)
		v, ok := x.lookup(idx)
		if !ok {
			v = zero(instr.X.Type().Underlying().(*types.Map).Elem())
		}
		if instr.CommaOk {
			v = tuple{copyVal(v), ok}
		} else {
			v = copyVal(v)
		}
		return v
	}
	panic(fmt.Sprintf("unexpected x type in Lookup: %T", x))
}

func rangeIter(x value, t types.Type) iter {
	switch x := x.(type) {
	case *omap:
		return &omapIter{m: x, rev: reverseMaps}
	case string:
		return &stringIter{s: x}
	case symstr:
		return &symstrIter{s: x}
	}
	panic(fmt.Sprintf("cannot range over %T", x))
}

func lenOf(x value) value {
	switch x := x.(type) {
	case string:
		return len(x)
	case symstr:
		return len(x.b)
	case decstr:
		return &Sym{decLen(x.x)}
	case *decbytes:
		return &Sym{decLen(x.x)}
	case array:
		return len(x)
	case *value:
		return len((*x).(array))
	case []value:
		return len(x)
	case *omap:
		return x.len()
	case *gchan:
		if x == nil {
			return 0
		}
		return len(x.buf)
	}
	panic(fmt.Sprintf("len: illegal operand: %T", x))
}

// decLen is the length of the decimal rendering of signed 64-bit x.
func decLen(x *Term) *Term {
	neg := mkCmp(OpSlt, x, mkConst(64, 0))
	// magnitude as unsigned (works for MinInt64 too)
	mag := mkIte(neg, mkUn(OpNeg, x), x)
	res := mkConst(64, 20)
	p := uint64(10000000000000000000) // 10^19
	for d := 19; d >= 1; d-- {
		res = mkIte(mkCmp(OpUlt, mag, mkConst(64, p)), mkConst(64, uint64(d)), res)
		p /= 10
	}
	return mkBin(OpAdd, res, mkIte(neg, mkConst(64, 1), mkConst(64, 0)))
}

// callBuiltin interprets a call to builtin fn.
func callBuiltin(caller *frame, callpos token.Pos, fn *ssa.Builtin, args []value) value {
	switch fn.Name() {
	case "append":
		if len(args) == 1 {
			return args[0]
		}
		if _, ok := args[0].(*decbytes); ok {
			theEx.unsupported("append to opaque decimal bytes")
		}
		var add []value
		switch s := args[1].(type) {
		case string:
			add, _ = strCells(s)
		case symstr:
			add = s.b
		case []value:
			add = s
		case decstr, *decbytes:
			if len(args[0].([]value)) == 0 {
				switch s := s.(type) {
				case decstr:
					return &decbytes{s.x}
				case *decbytes:
					return &decbytes{s.x}
				}
			}
			theEx.unsupported("append of opaque decimal text")
		default:
			panic(fmt.Sprintf("append: unexpected %T", s))
		}
		tElt := fn.Type().(*types.Signature).Params().At(0).Type().Underlying().(*types.Slice).Elem()
		return appendCells(args[0].([]value), add, tElt)

	case "copy": // copy([]T, []T) int or copy([]byte, string) int
		var src []value
		switch s := args[1].(type) {
		case string:
			src, _ = strCells(s)
		case symstr:
			src = s.b
		case []value:
			src = s
		default:
			theEx.unsupported(fmt.Sprintf("copy from %T", s))
		}
		dst, ok := args[0].([]value)
		if !ok {
			theEx.unsupported(fmt.Sprintf("copy into %T", args[0]))
		}
		n := len(src)
		if len(dst) < n {
			n = len(dst)
		}
		if mon.on && n > 0 {
			monRead(&src[0], caller)
			monWrite(&dst[0], nil, caller)
		}
		// handle overlap like memmove
		tmp := make([]value, n)
		for i := 0; i < n; i++ {
			tmp[i] = copyVal(src[i])
		}
		for i := 0; i < n; i++ {
			setCell(&dst[i], tmp[i])
		}
		return n

	case "close":
		args[0].(*gchan).close()
		return nil

	case "delete":
		monMap(args[0].(*omap), true, caller)
		args[0].(*omap).delete(args[1])
		return nil

	case "print", "println":
		ln := fn.Name() == "println"
		for i, arg := range args {
			if i > 0 && ln {
				fmt.Fprint(os.Stderr, " ")
			}
			fmt.Fprint(os.Stderr, toString(arg))
		}
		if ln {
			fmt.Fprintln(os.Stderr)
		}
		return nil

	case "len":
		return lenOf(args[0])

	case "cap":
		switch x := args[0].(type) {
		case array:
			return cap(x)
		case *value:
			return cap((*x).(array))
		case []value:
			return cap(x)
		case *gchan:
			if x == nil {
				return 0
			}
			return x.cap
		case *decbytes:
			return &Sym{decLen(x.x)}
		default:
			panic(fmt.Sprintf("cap: illegal operand: %T", x))
		}

	case "min", "max":
		isMin := fn.Name() == "min"
		anySym := false
		for _, a := range args {
			if isSym(a) {
				anySym = true
			}
		}
		if !anySym {
			if isMin {
				return foldLeft(min, args)
			}
			return foldLeft(max, args)
		}
		t := fn.Type().(*types.Signature).Params().At(0).Type()
		_, signed, _ := intInfo(t)
		acc := toTerm(args[0])
		for _, a := range args[1:] {
			b := toTerm(a)
			var lt *Term
			if signed {
				lt = mkCmp(OpSlt, b, acc)
			} else {
				lt = mkCmp(OpUlt, b, acc)
			}
			if isMin {
				acc = mkIte(lt, b, acc)
			} else {
				acc = mkIte(lt, acc, b)
			}
		}
		return fromTerm(t, acc)

	case "panic":
		panic(targetPanic{args[0]})

	case "recover":
		return doRecover(caller)

	case "ssa:wrapnilchk":
		recv := args[0]
		if recv.(*value) == nil {
			recvType := args[1]
			methodName := args[2]
			panic(targetPanic{runtimeErr(fmt.Sprintf("value method (%s).%s called using nil *%s pointer",
				recvType, methodName, recvType))})
		}
		return recv

	case "ssa:deferstack":
		return &caller.defers
	}

	panic("unknown built-in: " + fn.Name())
}

// appendCells appends add to s with Go's aliasing behaviour (in place
// when capacity allows), writing through the trail.
func appendCells(s []value, add []value, tElt types.Type) []value {
	if len(add) == 0 {
		return s
	}
	n := len(s)
	if mon.on && len(add) > 0 {
		monRead(&add[0], curFrame)
	}
	if n+len(add) <= cap(s) {
		r := s[:n+len(add)]
		if mon.on {
			full := s[:cap(s)]
			if mon.setupArrays[&full[0]] && !mon.anyHeld() {
				mon.sharedWr = append(mon.sharedWr, monAccess{true, curFrame.fn.String(), "spare capacity of a slice built at start-up (shared table)", nil})
			}
			monWrite(&r[n], nil, curFrame)
		}
		for i, v := range add {
			setCell(&r[n+i], copyVal(v))
		}
		return r
	}
	newCap := growCap(cap(s), n+len(add), tElt)
	r := make([]value, newCap)
	if !trailOn && newCap > 0 {
		mon.setupArrays[&r[0]] = true
	}
	if mon.on && n > 0 {
		monRead(&s[0], curFrame)
	}
	copy(r, s)
	for i, v := range add {
		r[n+i] = copyVal(v)
	}
	for i := n + len(add); i < newCap; i++ {
		r[i] = zero(tElt)
	}
	return r[:n+len(add)]
}

// expandDec materialises the decimal text of x as byte cells: the length
// is forked on (1..18 characters), the digits are fresh symbolic bytes
// constrained to spell x.
// decOrigins remembers, for the digit bytes produced by expandDec, which
// value they spell: ParseInt of exactly those bytes is that value again.
type decOrigin struct {
	x   *Term
	n   int
	idx int
}

var decOrigins = map[*Term]decOrigin{}

// decOriginOf reports the term whose complete decimal text b is.
func decOriginOf(b []value) (*Term, bool) {
	if len(b) == 0 {
		return nil, false
	}
	var x *Term
	for i, c := range b {
		s, ok := c.(*Sym)
		if !ok {
			return nil, false
		}
		o, ok := decOrigins[s.t]
		if !ok || o.idx != i || o.n != len(b) || (i > 0 && o.x != x) {
			return nil, false
		}
		x = o.x
	}
	return x, true
}

func expandDec(x *Term) []value {
	if x.op == OpConst {
		s := fmt.Sprint(int64(x.val))
		cells, _ := strCells(s)
		return cells
	}
	ex := theEx
	n := int(ex.concretize(decLen(x), 1, 20, "declen"))
	base := ex.freshName("$dec")
	cells := make([]value, n)
	for i := range cells {
		cv := mkVar(fmt.Sprintf("%s[%d]", base, i), 8)
		cells[i] = &Sym{cv}
	}
	var cellTerms []*Term
	for i, c := range cells {
		decOrigins[c.(*Sym).t] = decOrigin{x, n, i}
		cellTerms = append(cellTerms, c.(*Sym).t)
	}
	ex.assumeDef(decEqCells(x, cells), cellTerms)
	usedIntrinsics["decimal text expanded to digit bytes"]++
	return cells
}
