package main

// gosym: bounded symbolic execution of Go functions from go/ssa with an
// SMT solver.  Loads /repo afresh on every run with harness files
// presented as overlay files of the package under test.

import (
	"encoding/json"
	"flag"
	"fmt"
	"go/ast"
	"go/types"
	"os"
	"path/filepath"
	"regexp"
	"runtime/pprof"
	"sort"
	"strings"
	"time"

	"golang.org/x/tools/go/packages"
	"golang.org/x/tools/go/ssa"
	"golang.org/x/tools/go/ssa/ssautil"
)

var (
	tierLevel    int
	openRegions  = map[string]bool{}
	verbose      bool
	noFallback   bool
	reverseMaps  bool
	initPackages = map[string]bool{}
)

type HarnessResult struct {
	Harness       string             `json:"harness"`
	Paths         int                `json:"paths"`
	PathKinds     map[string]int     `json:"path_kinds"`
	Steps         int64              `json:"ssa_instructions"`
	Obligations   int                `json:"obligations"`
	Discharged    int                `json:"discharged"`
	Trivial       int                `json:"discharged_concretely"`
	Violations    []Violation        `json:"violations"`
	Known         []KnownOut         `json:"known_findings"`
	Reach         map[string]bool    `json:"vacuity_witnesses"`
	Incomplete    []string           `json:"incomplete"`
	Unsupported   map[string]int     `json:"unsupported"`
	Samples       []PathSample       `json:"samples"`
	Queries       int                `json:"queries"`
	Sat           int                `json:"sat"`
	Unsat         int                `json:"unsat"`
	Unknown       int                `json:"unknown"`
	SolverErrors  int                `json:"solver_errors"`
	Fallback      int                `json:"fallback_queries"`
	HybridMiss    int                `json:"queries_passed_to_bitblaster"`
	BadModels     int                `json:"models_rejected_by_evaluation"`
	SolverTime    float64            `json:"solver_time_s"`
	Wall          float64            `json:"wall_s"`
	Functions     []string           `json:"functions_encoded"`
	Intrinsics    []string           `json:"intrinsics_used"`
	GoSpawned     int                `json:"goroutines_deferred"`
	Unwind        int                `json:"unwind_bound"`
	CrossChecked  int                `json:"cross_checked"`
	CrossDisagree int                `json:"cross_disagreements"`
	ReverseMaps   bool               `json:"reversed_map_order"`
	Validation    []ValidationSample `json:"validation"`
	FieldLog      []fieldAccess      `json:"field_lockset_log"`
	LockOrder     []lockEdge         `json:"lock_order_log"`
}

type KnownOut struct {
	Region string            `json:"region"`
	Label  string            `json:"label"`
	Kind   string            `json:"kind"`
	Hits   int               `json:"hits"`
	Model  map[string]uint64 `json:"model"`
	Trace  string            `json:"trace"`
	Inputs []InputRec        `json:"inputs"`
}

func main() {
	repo := flag.String("repo", "/repo", "repository directory (package under test)")
	hdir := flag.String("harness", "/verif/harness", "directory of harness .go files (overlay)")
	run := flag.String("run", "", "regexp of harness function names (VerifH_...)")
	list := flag.Bool("list", false, "list harness functions and exit")
	out := flag.String("out", "", "write JSON results to this file")
	setup := flag.String("setup", "", "name of a setup function run once concretely before exploration")
	timeout := flag.Duration("timeout", 10*time.Minute, "wall-time budget per harness")
	qtimeout := flag.Int("qtimeout", 20000, "solver timeout per query (ms)")
	unwind := flag.Int("unwind", 64, "bound on symbolic branch repetitions per activation")
	maxPaths := flag.Int("maxpaths", 200000, "bound on number of paths per harness")
	maxSteps := flag.Int64("maxsteps", 20000000, "bound on SSA instructions per path")
	tags := flag.String("tags", "verif", "build tags")
	trace := flag.Bool("trace", false, "trace every instruction (very verbose)")
	inits := flag.String("init", "", "extra comma-separated packages whose init is run")
	cross := flag.Int("cross", 0, "cross-check this many queries on a second solver")
	nvalid := flag.Int("validate", 3, "number of completed paths whose model is emitted for native validation")
	shardF := flag.String("shard", "", "i/n: explore only the i-th of n shards of the path tree")
	shardDepth := flag.Int("sharddepth", 10, "decision depth at which paths are assigned to shards")
	maxViol := flag.Int("maxviol", 1, "violation candidates recorded per assertion label")
	tierF := flag.String("tier", "quick", "quick or thorough (visible to harnesses as vTier())")
	regionsF := flag.String("regions", "", "comma-separated open known-finding regions")
	flag.BoolVar(&verbose, "v", false, "verbose")
	flag.BoolVar(&noFallback, "nofallback", false, "do not try other solvers on unknown")
	flag.BoolVar(&reverseMaps, "revmaps", false, "iterate maps in reverse insertion order")
	cpuprof := flag.String("cpuprofile", "", "write CPU profile")
	flag.Parse()
	if *cpuprof != "" {
		f, _ := os.Create(*cpuprof)
		pprof.StartCPUProfile(f)
		defer pprof.StopCPUProfile()
	}

	if *tierF == "thorough" {
		tierLevel = 1
	}
	for _, r := range strings.Split(*regionsF, ",") {
		if r != "" {
			openRegions[r] = true
		}
	}
	for _, p := range defaultInitPackages {
		initPackages[p] = true
	}
	for _, p := range strings.Split(*inits, ",") {
		if p != "" {
			initPackages[p] = true
		}
	}

	t0 := time.Now()
	prog, pkg, embeds, err := loadProgram(*repo, *hdir, *tags)
	if err != nil {
		fmt.Fprintln(os.Stderr, "load:", err)
		os.Exit(3)
	}
	if verbose {
		fmt.Fprintf(os.Stderr, "loaded and built SSA in %.1fs\n", time.Since(t0).Seconds())
	}

	var names []string
	for name, m := range pkg.Members {
		if f, ok := m.(*ssa.Function); ok && strings.HasPrefix(name, "VerifH_") && f.Signature.Params().Len() == 0 {
			names = append(names, name)
		}
	}
	sort.Strings(names)
	if *list {
		for _, n := range names {
			fmt.Println(n)
		}
		return
	}
	re, err := regexp.Compile("^(" + *run + ")$")
	if err != nil {
		fmt.Fprintln(os.Stderr, "bad -run:", err)
		os.Exit(3)
	}
	var sel []string
	for _, n := range names {
		if re.MatchString(n) {
			sel = append(sel, n)
		}
	}
	if len(sel) == 0 {
		fmt.Fprintln(os.Stderr, "no harness matches", *run)
		os.Exit(3)
	}

	i := &interpreter{
		prog:         prog,
		globals:      map[*ssa.Global]*value{},
		sizes:        &types.StdSizes{WordSize: 8, MaxAlign: 8},
		mainPkg:      pkg,
		maxPathSteps: *maxSteps,
		funcsEntered: map[*ssa.Function]int{},
		initDone:     map[*ssa.Package]bool{},
		tracing:      *trace,
	}
	theInterp = i
	if rt := prog.ImportedPackage("runtime"); rt != nil {
		i.runtimeErrorString = rt.Type("errorString").Object().Type()
	} else {
		i.runtimeErrorString = types.Typ[types.String]
	}
	if ep := prog.ImportedPackage("errors"); ep != nil {
		i.errorStringType = types.NewPointer(ep.Type("errorString").Object().Type())
	}

	solver := NewSolver(*qtimeout)
	defer solver.Close()
	ex := NewExplorer(solver, i)
	theEx = ex
	ex.nowSec = 1700000000

	// embedded files
	for g, data := range embeds {
		cell := i.globalAddr(g)
		if isString(mustDeref(g.Type())) {
			*cell = string(data)
		} else {
			*cell = bytesToValue(data)
		}
	}

	// package initialisation and optional setup, concretely, outside the trail
	fault := runGuarded(func() {
		i.inInit = true
		call(i, nil, 0, pkg.Func("init"), nil)
		i.inInit = false
		if *setup != "" {
			f := pkg.Func(*setup)
			if f == nil {
				panic(engineFault{"no setup function " + *setup, ""})
			}
			call(i, nil, 0, f, nil)
		}
	})
	if fault != "" {
		fmt.Fprintln(os.Stderr, "ENGINE-FAULT during init/setup:", fault)
		os.Exit(3)
	}
	initSteps := i.steps
	if verbose {
		fmt.Fprintf(os.Stderr, "init+setup: %d instructions, %.1fs\n", initSteps, time.Since(t0).Seconds())
	}
	trailOn = true

	var results []HarnessResult
	for _, name := range sel {
		fn := pkg.Func(name)
		h0 := time.Now()
		ex2 := NewExplorer(solver, i)
		ex2.nowSec = ex.nowSec
		ex2.unwind = *unwind
		ex2.maxPaths = *maxPaths
		ex2.deadline = time.Now().Add(*timeout)
		ex2.wantValidation = *nvalid
		ex2.maxViolPerLabel = *maxViol
		if *shardF != "" {
			fmt.Sscanf(*shardF, "%d/%d", &ex2.shardI, &ex2.shardN)
			ex2.shardDepth = *shardDepth
		}
		theEx = ex2
		i.funcsEntered = map[*ssa.Function]int{}
		for k := range usedIntrinsics {
			delete(usedIntrinsics, k)
		}
		q0, s0, u0, k0, e0, f0, st0 := solver.Queries, solver.NSat, solver.NUnsat, solver.NUnknown, solver.NErrors, solver.FallbackQ, solver.SolveTime
		steps0 := i.steps
		ex2.Run(name, func() { call(i, nil, 0, fn, nil) })
		r := HarnessResult{
			Harness: name, Paths: ex2.Paths, PathKinds: ex2.PathKinds, Steps: i.steps - steps0,
			Obligations: ex2.Obligations, Discharged: ex2.Discharged, Trivial: ex2.Trivial,
			Violations: ex2.Violations, Reach: map[string]bool{}, Incomplete: dedup(ex2.Incomplete),
			Unsupported: ex2.Unsupported, Samples: ex2.Samples,
			Queries: solver.Queries - q0, Sat: solver.NSat - s0, Unsat: solver.NUnsat - u0, Unknown: solver.NUnknown - k0,
			SolverErrors: solver.NErrors - e0, Fallback: solver.FallbackQ - f0,
			HybridMiss: solver.NHybridMiss, BadModels: solver.NBadModel,
			SolverTime: (solver.SolveTime - st0).Seconds(), Wall: time.Since(h0).Seconds(),
			GoSpawned: ex2.GoSpawned, Unwind: ex2.unwind, ReverseMaps: reverseMaps, Validation: ex2.Validation,
		}
		for l := range ex2.ReachWanted {
			r.Reach[l] = ex2.Reach[l]
		}
		for _, kh := range ex2.knownModels {
			mm := map[string]uint64{}
			for k, v := range kh.model {
				mm[k] = v
			}
			r.Known = append(r.Known, KnownOut{kh.region, kh.label, kh.kind, ex2.KnownHits[kh.region], mm, kh.trace, kh.inputs})
		}
		for f, n := range i.funcsEntered {
			if n > 0 && f.Pkg != nil {
				r.Functions = append(r.Functions, f.String())
			} else if n > 0 && f.Parent() != nil {
				r.Functions = append(r.Functions, f.String())
			}
		}
		sort.Strings(r.Functions)
		for k := range usedIntrinsics {
			r.Intrinsics = append(r.Intrinsics, k)
		}
		sort.Strings(r.Intrinsics)
		for _, fa := range fieldLog {
			r.FieldLog = append(r.FieldLog, fa)
		}
		fieldLog = map[string]fieldAccess{}
		for _, e := range lockOrderLog {
			r.LockOrder = append(r.LockOrder, e)
		}
		lockOrderLog = map[string]lockEdge{}
		if *cross > 0 {
			r.CrossChecked, r.CrossDisagree = crossCheckSamples(ex2, *cross)
		}
		results = append(results, r)
		if verbose {
			fmt.Fprintf(os.Stderr, "%s: %d paths %v, %d/%d obligations, %d violation candidates, %d queries (%.1fs solver), %.1fs\n",
				name, r.Paths, r.PathKinds, r.Discharged, r.Obligations, len(r.Violations), r.Queries, r.SolverTime, r.Wall)
		}
	}
	enc, _ := json.MarshalIndent(results, "", " ")
	if *out != "" {
		if err := os.WriteFile(*out, enc, 0o644); err != nil {
			fmt.Fprintln(os.Stderr, err)
			os.Exit(3)
		}
	} else {
		os.Stdout.Write(enc)
		fmt.Println()
	}
}

func dedup(xs []string) []string {
	seen := map[string]bool{}
	var out []string
	for _, x := range xs {
		if !seen[x] {
			seen[x] = true
			out = append(out, x)
		}
	}
	return out
}

var crossLog [][2]interface{}

func crossCheckSamples(ex *Explorer, n int) (checked, disagree int) {
	for _, q := range ex.crossQueries {
		if checked >= n {
			break
		}
		ok, _ := CrossCheck(q.pc, q.extra, q.res)
		checked++
		if !ok {
			disagree++
		}
	}
	return
}

func runGuarded(f func()) (fault string) {
	defer func() {
		if r := recover(); r != nil {
			switch p := r.(type) {
			case engineFault:
				fault = p.msg + p.stack
			case pathEnd:
				fault = p.kind + ": " + p.msg
			case targetPanic:
				fault = "target panic: " + panicText(p.v) + lastPanicStack
			default:
				panic(r)
			}
		}
	}()
	f()
	return ""
}

var defaultInitPackages = []string{
	"time", "fmt", "strconv", "strings", "unicode", "unicode/utf8", "math", "math/bits",
	"sort", "bytes", "sync", "sync/atomic", "encoding/binary", "io", "math/big",
	"internal/bytealg", "internal/itoa", "internal/stringslite", "unicode/utf16",
}

func loadProgram(repo, hdir, tags string) (*ssa.Program, *ssa.Package, map[*ssa.Global][]byte, error) {
	overlay := map[string][]byte{}
	ents, err := os.ReadDir(hdir)
	if err != nil {
		return nil, nil, nil, err
	}
	for _, e := range ents {
		if strings.HasSuffix(e.Name(), ".go") && !strings.HasSuffix(e.Name(), "_test.go") {
			b, err := os.ReadFile(filepath.Join(hdir, e.Name()))
			if err != nil {
				return nil, nil, nil, err
			}
			overlay[filepath.Join(repo, "zz_verif_"+e.Name())] = b
		}
	}
	cfg := &packages.Config{
		Mode:       packages.LoadAllSyntax | packages.NeedEmbedFiles | packages.NeedEmbedPatterns,
		Dir:        repo,
		Overlay:    overlay,
		BuildFlags: []string{"-tags=" + tags},
		Env:        append(os.Environ(), "GOFLAGS=-mod=mod", "GOPROXY=off", "GOSUMDB=off", "GOTOOLCHAIN=local"),
	}
	initial, err := packages.Load(cfg, ".")
	if err != nil {
		return nil, nil, nil, err
	}
	if packages.PrintErrors(initial) > 0 {
		return nil, nil, nil, fmt.Errorf("packages contain errors")
	}
	prog, pkgs := ssautil.AllPackages(initial, ssa.InstantiateGenerics)
	prog.Build()
	pkg := pkgs[0]
	if pkg == nil {
		return nil, nil, nil, fmt.Errorf("no SSA package")
	}
	// //go:embed variables
	embeds := map[*ssa.Global][]byte{}
	for _, f := range initial[0].Syntax {
		for _, d := range f.Decls {
			gd, ok := d.(*ast.GenDecl)
			if !ok || gd.Doc == nil {
				continue
			}
			for _, c := range gd.Doc.List {
				if strings.HasPrefix(c.Text, "//go:embed ") {
					fname := strings.TrimSpace(strings.TrimPrefix(c.Text, "//go:embed "))
					for _, sp := range gd.Specs {
						vs, ok := sp.(*ast.ValueSpec)
						if !ok {
							continue
						}
						for _, n := range vs.Names {
							if g, ok := pkg.Members[n.Name].(*ssa.Global); ok {
								data, err := os.ReadFile(filepath.Join(repo, fname))
								if err != nil {
									return nil, nil, nil, err
								}
								embeds[g] = data
							}
						}
					}
				}
			}
		}
	}
	return prog, pkg, embeds, nil
}
