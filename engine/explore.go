package main

// Path exploration by re-execution: every path of a harness is run from
// the post-setup state, steered by a recorded prefix of branch decisions.
// New decisions consult the SMT solver; the untaken feasible side is
// pushed on a DFS work list.

import (
	"fmt"
	"os"
	"sort"
	"strings"
	"time"
)

type pathEnd struct {
	kind string // "done", "infeasible", "unsupported", "unwind", "step-limit", "blocked", "depth-limit", "assert-stop"
	msg  string
}

type engineFault struct {
	msg   string
	stack string
}

type workItem struct {
	prefix []bool
	model  Model
}

type Violation struct {
	Harness string            `json:"harness"`
	Label   string            `json:"label"`
	Kind    string            `json:"kind"` // assert | panic | alloc | hang
	Msg     string            `json:"msg"`
	Model   map[string]uint64 `json:"model"`
	Trace   string            `json:"trace"`
	Inputs  []InputRec        `json:"inputs"`
	Region  string            `json:"region,omitempty"`
	Where   string            `json:"where,omitempty"`
}

type InputRec struct {
	Name string `json:"name"`
	Kind string `json:"kind"`
	W    int    `json:"w,omitempty"`
}

type Explorer struct {
	solver *Solver
	interp *interpreter

	// per path
	trace      []bool
	replayLen  int
	pc         []*Term
	model      Model
	nameCount  map[string]int
	inputs     []InputRec
	observed   []Observation
	regions    map[string]*Term // known-finding regions declared on this path
	defs       []*lazyDef
	unconf     bool             // an Unknown answer was assumed feasible on this path
	envDepth   int
	envHook    func(point string) bool
	catchDepth int

	work []workItem

	cursor                               int
	crossQueries                         []crossQ
	curWhere                             string
	knownModels                          []knownHit
	nowSec                               int64
	nowNs                                int64
	nowSym                               func() value
	nowNsec                              func() value
	randFixed                            bool
	shardI, shardN, shardDepth           int
	pathObl, pathDis, pathTriv, pathViol int
	randStarted                          bool
	randNext                             int
	onLock                               func(mu *value, lock bool, fr *frame)

	// limits
	unwind     int
	maxDepth   int
	allocLimit int64
	maxPaths   int
	deadline   time.Time

	// results
	harness          string
	Paths            int
	PathKinds        map[string]int
	Violations       []Violation
	violSeen         map[string]int
	KnownHits        map[string]int
	Obligations      int
	Discharged       int
	Trivial          int
	Reach            map[string]bool
	ReachWanted      map[string]bool
	Incomplete       []string
	Unsupported      map[string]int
	Samples          []PathSample
	GoSpawned        int
	LockFaults       []string
	maxViolPerLabel  int
	Validation       []ValidationSample
	wantValidation   int
	validationStride int
	expectPanic      map[string]bool
}

// ValidationSample is a model of a completed path together with the values
// the engine computed for the harness observations; the check replays it
// natively and compares (encoder validation, every run).
type ValidationSample struct {
	Harness  string            `json:"harness"`
	Model    map[string]uint64 `json:"model"`
	Observed map[string]string `json:"observed"`
	Trace    string            `json:"trace"`
}

func (ex *Explorer) validationSample() (ValidationSample, bool) {
	if ex.model == nil {
		res, m := ex.solver.Check(ex.pc, nil, true)
		if res != Sat {
			return ValidationSample{}, false
		}
		ex.model = m
	}
	vs := ValidationSample{Harness: ex.harness, Model: map[string]uint64{}, Observed: map[string]string{}, Trace: ex.traceString()}
	for _, in := range ex.inputs {
		vs.Model[in.Name] = ex.model[in.Name]
	}
	for k, v := range ex.model {
		vs.Model[k] = v
	}
	for _, o := range ex.observed {
		if s, ok := renderObserved(o.Val, ex.model); ok {
			vs.Observed[o.Name] = s
		}
	}
	return vs, true
}

type Observation struct {
	Name string
	Val  value
}

type PathSample struct {
	Decisions int               `json:"decisions"`
	PC        []string          `json:"path_condition"`
	Model     map[string]uint64 `json:"model,omitempty"`
	End       string            `json:"end"`
}

var samplePCMax = func() int {
	if os.Getenv("GOSYM_PCMAX") != "" {
		return 200
	}
	return 8
}()

var theEx *Explorer
var theInterp *interpreter

func NewExplorer(s *Solver, i *interpreter) *Explorer {
	return &Explorer{
		solver: s, interp: i,
		unwind: 64, maxDepth: 4000, allocLimit: 1 << 16, maxPaths: 200000,
		PathKinds: map[string]int{}, violSeen: map[string]int{}, KnownHits: map[string]int{},
		Reach: map[string]bool{}, ReachWanted: map[string]bool{}, Unsupported: map[string]int{},
		maxViolPerLabel: 1, wantValidation: 3, validationStride: 7,
	}
}

func (ex *Explorer) abort(kind, msg string) {
	panic(pathEnd{kind, msg})
}

func (ex *Explorer) unsupported(msg string) {
	panic(pathEnd{"unsupported", msg})
}

func (ex *Explorer) blocked(msg string) {
	panic(pathEnd{"blocked", msg})
}

// env gives the harness environment a chance to make progress when the
// strand under test would block.  It returns false if nothing can be done.
func (ex *Explorer) env(point string) bool {
	if ex.envHook == nil || ex.envDepth > 0 {
		return false
	}
	ex.envDepth++
	defer func() { ex.envDepth-- }()
	return ex.envHook(point)
}

func (ex *Explorer) spawn(i *interpreter, pc pendingCall) {
	ex.GoSpawned++
	i.pendingGo = append(i.pendingGo, pc)
}

func (ex *Explorer) ensureModel() bool {
	if ex.model != nil {
		return true
	}
	res, m := ex.solver.Check(ex.pc, nil, true)
	switch res {
	case Sat:
		ex.model = m
		return true
	case Unsat:
		ex.abort("infeasible", "path condition unsatisfiable")
	}
	return false
}

// decide returns the direction to take on symbolic condition c.
func (ex *Explorer) decide(c *Term, why string) bool {
	if c.op == OpConst {
		return c.val != 0
	}
	if v, ok := ex.quickRange(c); ok {
		return v
	}
	if len(ex.trace) > ex.maxDepth {
		ex.abort("unwind", fmt.Sprintf("more than %d symbolic decisions on one path", ex.maxDepth))
	}
	ex.touch(c)
	if ex.replayPos() {
		d := ex.trace[ex.cursor]
		ex.cursor++
		if d {
			ex.pc = append(ex.pc, c)
		} else {
			ex.pc = append(ex.pc, mkNot(c))
		}
		ex.shardCheck()
		return d
	}
	// new decision
	var tRes, fRes Result = Unknown, Unknown
	tKnown, fKnown := false, false
	var tM, fM Model
	if ex.model != nil {
		if ex.model.Eval(c) != 0 {
			tRes, tM, tKnown = Sat, ex.model, true
		} else {
			fRes, fM, fKnown = Sat, ex.model, true
		}
	}
	if !tKnown {
		tRes, tM = ex.solver.Check(ex.pc, c, true)
	}
	if !fKnown {
		fRes, fM = ex.solver.Check(ex.pc, mkNot(c), true)
	}
	if tRes == Unsat && fRes == Unsat {
		ex.abort("infeasible", "both branch sides unsatisfiable")
	}
	take := true
	switch {
	case tRes == Unsat:
		take = false
	case fRes == Unsat:
		take = true
	default:
		// both feasible (or unknown): follow the model if we have one
		if fKnown && !tKnown {
			take = false
		}
		other := !take
		var om Model
		var ores Result
		if other {
			om, ores = tM, tRes
		} else {
			om, ores = fM, fRes
		}
		if ores == Unknown {
			om = nil
		}
		np := make([]bool, len(ex.trace)+1)
		copy(np, ex.trace)
		np[len(ex.trace)] = other
		ex.work = append(ex.work, workItem{np, om})
	}
	ex.trace = append(ex.trace, take)
	ex.cursor++
	defer ex.shardCheck()
	if take {
		ex.pc = append(ex.pc, c)
		if tRes == Sat {
			ex.model = tM
		} else {
			ex.model = nil
			ex.unconf = true
		}
	} else {
		ex.pc = append(ex.pc, mkNot(c))
		if fRes == Sat {
			ex.model = fM
		} else {
			ex.model = nil
			ex.unconf = true
		}
	}
	return take
}

// choose picks one of n alternatives (all explored).
func (ex *Explorer) choose(n int, why string) int {
	if n <= 1 {
		return 0
	}
	// encode as decisions on fresh booleans: unary selection
	for k := 0; k < n-1; k++ {
		b := ex.freshVar(fmt.Sprintf("$choice.%s", why), 0)
		if ex.decide(b, why) {
			return k
		}
	}
	return n - 1
}

// concretize forks over the possible values of t within [lo, hi] by
// binary splitting (signed comparison on the 64-bit extension); the
// sequence of decisions is a function of the trace only, so it replays.
func (ex *Explorer) concretize(t *Term, lo, hi int64, why string) int64 {
	if t.op == OpConst {
		return int64(t.val)
	}
	if hi < lo {
		ex.abort("infeasible", fmt.Sprintf("empty range for %s", why))
	}
	t64 := t
	if t.w < 64 {
		t64 = mkZExt(t, 64)
	}
	ex.assume(mkAnd(mkCmp(OpSle, mkConst(64, uint64(lo)), t64), mkCmp(OpSle, t64, mkConst(64, uint64(hi)))))
	for lo < hi {
		mid := lo + (hi-lo)/2
		if ex.decide(mkCmp(OpSle, t64, mkConst(64, uint64(mid))), why) {
			hi = mid
		} else {
			lo = mid + 1
		}
	}
	return lo
}

// shardCheck ends the path when its first shardDepth decisions belong to
// another shard (several processes split one harness between them).
func (ex *Explorer) shardCheck() {
	if ex.shardN <= 1 || ex.cursor != ex.shardDepth {
		return
	}
	h := uint32(2166136261)
	for _, d := range ex.trace[:ex.shardDepth] {
		h ^= uint32(b2u(d)) + 1
		h *= 16777619
	}
	if int(h%uint32(ex.shardN)) != ex.shardI {
		ex.abort("other-shard", "")
	}
}

func (ex *Explorer) freshName(base string) string {
	if ex.nameCount == nil {
		ex.nameCount = map[string]int{}
	}
	ex.nameCount[base]++
	name := base
	if n := ex.nameCount[base]; n > 1 {
		name = fmt.Sprintf("%s#%d", base, n)
	}
	return name
}

func (ex *Explorer) freshVar(base string, w int) *Term {
	return mkVar(ex.freshName(base), w)
}

// ---------------------------------------------------------------------
// Lazily asserted definitions.  expandDec introduces digit bytes that are
// a total function of the value they spell (given its text length, which is
// already fixed on the path).  Such a definition constrains nothing but the
// new bytes, so it is kept out of the path condition until a query mentions
// one of them; queries about the value itself then do not carry the
// multiplication chain that relates digits and value.

type lazyDef struct {
	c      *Term
	vars   map[*Term]bool
	lo, hi map[*Term]uint64 // value range of each defined byte (for quick decisions)
	active bool
}

func (ex *Explorer) assumeDef(c *Term, cells []*Term) {
	d := &lazyDef{c: c, vars: map[*Term]bool{}, lo: map[*Term]uint64{}, hi: map[*Term]uint64{}}
	for i, v := range cells {
		d.vars[v] = true
		d.lo[v], d.hi[v] = '0', '9'
		if i == 0 {
			d.lo[v] = '-'
		}
	}
	ex.defs = append(ex.defs, d)
}

func collectDecVars(t *Term, seen map[*Term]bool, out map[*Term]bool) {
	if !t.dec || seen[t] {
		return
	}
	seen[t] = true
	if t.op == OpVar {
		out[t] = true
		return
	}
	for _, a := range t.args {
		collectDecVars(a, seen, out)
	}
}

// touch makes sure every definition whose bytes occur in t is part of the
// path condition before t is evaluated or sent to the solver.
func (ex *Explorer) touch(t *Term) {
	if t == nil || !t.dec {
		return
	}
	vars := map[*Term]bool{}
	collectDecVars(t, map[*Term]bool{}, vars)
	for _, d := range ex.defs {
		if d.active {
			continue
		}
		for v := range vars {
			if d.vars[v] {
				d.active = true
				ex.pc = append(ex.pc, d.c)
				ex.model = nil
				break
			}
		}
	}
}

// quickRange decides comparisons of one defined byte with a constant from
// the byte's range alone (a digit is never '\r').  ok=false: not decided.
func (ex *Explorer) quickRange(c *Term) (val, ok bool) {
	if !c.dec {
		return false, false
	}
	if c.op == OpBNot {
		v, ok := ex.quickRange(c.args[0])
		return !v, ok
	}
	if len(c.args) != 2 {
		return false, false
	}
	rng := func(t *Term) (uint64, uint64, bool) {
		for t.op == OpZExt {
			t = t.args[0]
		}
		if t.op == OpConst {
			return t.val, t.val, true
		}
		if t.op == OpVar {
			for _, d := range ex.defs {
				if d.vars[t] {
					return d.lo[t], d.hi[t], true
				}
			}
		}
		return 0, 0, false
	}
	al, ah, ok1 := rng(c.args[0])
	bl, bh, ok2 := rng(c.args[1])
	if !ok1 || !ok2 || ah > 127 || bh > 127 {
		return false, false
	}
	switch c.op {
	case OpEq:
		if ah < bl || bh < al {
			return false, true
		}
	case OpUlt, OpSlt:
		if ah < bl {
			return true, true
		}
		if al >= bh {
			return false, true
		}
	case OpUle, OpSle:
		if ah <= bl {
			return true, true
		}
		if al > bh {
			return false, true
		}
	}
	return false, false
}

func (ex *Explorer) replayPos() bool {
	return ex.cursor < ex.replayLen
}

// assume adds c to the path condition; the path ends if it is infeasible.
func (ex *Explorer) assume(c *Term) {
	if c.op == OpConst {
		if c.val == 0 {
			ex.abort("infeasible", "assumption is false")
		}
		return
	}
	ex.touch(c)
	if ex.replayPos() || (ex.model != nil && ex.model.Eval(c) != 0) {
		ex.pc = append(ex.pc, c)
		return
	}
	res, m := ex.solver.Check(ex.pc, c, true)
	switch res {
	case Unsat:
		ex.abort("infeasible", "assumption unsatisfiable")
	case Sat:
		ex.model = m
	default:
		ex.model = nil
		ex.unconf = true
	}
	ex.pc = append(ex.pc, c)
}

// panicIf states the obligation "bad never holds"; a satisfiable bad is a
// reachable run-time panic.
func (ex *Explorer) panicIf(bad *Term, msg string) {
	if bad.op == OpConst {
		if bad.val != 0 {
			panic(targetPanic{runtimeErr(msg)})
		}
		return
	}
	if ex.catchDepth > 0 {
		// inside a harness-level catch: fork so that the catcher sees the panic
		if ex.decide(bad, "panic:"+msg) {
			panic(targetPanic{runtimeErr(msg)})
		}
		return
	}
	ex.obligation("panic: "+msg, mkNot(bad), "panic", ex.where())
}

// allocViolation: a client-controlled element count above this is reported
// as an allocation bomb (the native replay runs under a 4 GiB address-space
// limit, so it dies with makeslice/out-of-memory).
const allocViolation = int64(1) << 32

func (ex *Explorer) allocCheck(n *Term, lenSymbolic bool) {
	bad := mkCmp(OpSlt, mkConst(64, uint64(allocViolation)), n)
	if bad.op == OpConst {
		if bad.val != 0 {
			ex.allocBomb(int64(n.val))
		}
		return
	}
	ex.obligation(fmt.Sprintf("allocation of more than 2^32 elements from client-controlled size"), mkNot(bad), "alloc", ex.where())
	// sizes between the enumeration bound and 2^32 are not explored
	if !ex.replayPos() && lenSymbolic {
		mid := mkCmp(OpSlt, mkConst(64, uint64(ex.allocLimit)), n)
		if res, _ := ex.solver.Check(ex.pc, mid, false); res != Unsat {
			ex.Unsupported[fmt.Sprintf("symbolic allocation size above %d elements is not enumerated (sizes up to 2^32 are outside the claim)", ex.allocLimit)]++
		}
	}
}

func (ex *Explorer) allocBomb(n int64) {
	ex.recordViolation(fmt.Sprintf("allocation of %d elements", n), "alloc", "allocation size exceeds limit", ex.where(), nil)
	ex.abort("assert-stop", "allocation bomb")
}

func (ex *Explorer) where() string {
	return ex.curWhere
}

// obligation checks that cond holds on every input of the current path
// prefix; on failure records a violation and continues under cond.
func (ex *Explorer) obligation(label string, cond *Term, kind, where string) {
	ex.Obligations++
	if cond.op == OpConst {
		if cond.val != 0 {
			ex.Discharged++
			ex.Trivial++
			return
		}
		ex.ensureModel()
		ex.recordViolation(label, kind, "holds on no input of this path", where, nil)
		ex.abort("assert-stop", label)
	}
	ex.touch(cond)
	if ex.replayPos() {
		// this obligation was already decided when the prefix was first run
		ex.Obligations--
		ex.pc = append(ex.pc, cond)
		return
	}
	neg := mkNot(cond)
	// split by declared known-finding regions
	var regionNames []string
	for name := range ex.regions {
		regionNames = append(regionNames, name)
	}
	sort.Strings(regionNames)
	outside := neg
	if len(regionNames) > 0 {
		parts := []*Term{neg}
		for _, n := range regionNames {
			parts = append(parts, mkNot(ex.regions[n]))
		}
		outside = mkAnd(parts...)
	}
	res, m := ex.solver.Check(ex.pc, outside, true)
	if len(ex.crossQueries) < 64 && res != Unknown {
		ex.crossQueries = append(ex.crossQueries, crossQ{append([]*Term{}, ex.pc...), outside, res})
	}
	switch res {
	case Sat:
		ex.recordViolation(label, kind, "", where, m)
	case Unknown:
		ex.Incomplete = append(ex.Incomplete, fmt.Sprintf("solver unknown on obligation %q", label))
	case Unsat:
		inKnown := false
		for _, n := range regionNames {
			r2, m2 := ex.solver.Check(ex.pc, mkAnd(neg, ex.regions[n]), true)
			if r2 == Sat {
				inKnown = true
				ex.KnownHits[n]++
				if ex.KnownHits[n] == 1 {
					ex.knownModels = append(ex.knownModels, knownHit{n, label, kind, m2, ex.traceString(), append([]InputRec{}, ex.inputs...)})
				}
			} else if r2 == Unknown {
				ex.Incomplete = append(ex.Incomplete, fmt.Sprintf("solver unknown on known-finding region %q", n))
			}
		}
		if !inKnown {
			ex.Discharged++
		}
	}
	// continue under the assumption that the obligation holds
	ex.assumeAfterObligation(cond)
}

func (ex *Explorer) assumeAfterObligation(cond *Term) {
	ex.touch(cond)
	if ex.model != nil && ex.model.Eval(cond) != 0 {
		ex.pc = append(ex.pc, cond)
		return
	}
	res, m := ex.solver.Check(ex.pc, cond, true)
	switch res {
	case Unsat:
		ex.abort("assert-stop", "obligation fails on every input of this path")
	case Sat:
		ex.model = m
	default:
		ex.model = nil
		ex.unconf = true
	}
	ex.pc = append(ex.pc, cond)
}

type crossQ struct {
	pc    []*Term
	extra *Term
	res   Result
}

type knownHit struct {
	region string
	label  string
	kind   string
	model  Model
	trace  string
	inputs []InputRec
}

func (ex *Explorer) traceString() string {
	var sb strings.Builder
	for _, d := range ex.trace {
		if d {
			sb.WriteByte('1')
		} else {
			sb.WriteByte('0')
		}
	}
	return sb.String()
}

func (ex *Explorer) recordViolation(label, kind, msg, where string, m Model) {
	key := kind + "|" + label
	ex.violSeen[key]++
	if ex.violSeen[key] > ex.maxViolPerLabel {
		return
	}
	if m == nil {
		ex.ensureModel()
		m = ex.model
	}
	mm := map[string]uint64{}
	for k, v := range m {
		mm[k] = v
	}
	ex.Violations = append(ex.Violations, Violation{
		Harness: ex.harness, Label: label, Kind: kind, Msg: msg, Model: mm,
		Trace: ex.traceString(), Inputs: append([]InputRec{}, ex.inputs...), Where: where,
	})
	if verbose {
		fmt.Fprintf(os.Stderr, "  violation candidate: %s [%s] %s %s\n", label, kind, msg, where)
	}
}

// reach records that a vacuity witness is reachable.
func (ex *Explorer) reach(label string, cond *Term) {
	ex.ReachWanted[label] = true
	if ex.Reach[label] {
		return
	}
	if cond.op == OpConst {
		if cond.val != 0 {
			ex.Reach[label] = true
		}
		return
	}
	ex.touch(cond)
	if ex.model != nil && ex.model.Eval(cond) != 0 {
		ex.Reach[label] = true
		return
	}
	if res, _ := ex.solver.Check(ex.pc, cond, false); res == Sat {
		ex.Reach[label] = true
	}
}

// ---------------------------------------------------------------------
// Driver

func (ex *Explorer) resetPath(w workItem) {
	ex.trace = append([]bool{}, w.prefix...)
	ex.replayLen = len(w.prefix)
	ex.cursor = 0
	ex.pc = ex.pc[:0]
	ex.model = w.model
	if ex.model == nil && len(w.prefix) == 0 {
		ex.model = Model{}
	}
	ex.nameCount = map[string]int{}
	ex.defs = nil
	ex.inputs = nil
	ex.observed = nil
	ex.regions = map[string]*Term{}
	ex.unconf = false
	ex.envDepth = 0
	ex.envHook = nil
	ex.onLock = nil
	mon.reset()
	activeTimers = nil
	ex.pathObl, ex.pathDis, ex.pathTriv, ex.pathViol = ex.Obligations, ex.Discharged, ex.Trivial, len(ex.Violations)
	ex.randStarted = false
	ex.randNext = 0
	ex.catchDepth = 0
	ex.curWhere = ""
	ex.interp.pathSteps = 0
	ex.interp.pendingGo = nil
	ex.interp.depthGuard = 0
}

// Run explores all paths of the harness function.
func (ex *Explorer) Run(name string, body func()) {
	ex.harness = name
	ex.work = []workItem{{nil, Model{}}}
	if tr := os.Getenv("GOSYM_PREFIX"); tr != "" {
		// debugging aid: explore only below one decision prefix
		var p []bool
		for _, c := range tr {
			p = append(p, c == '1')
		}
		ex.work = []workItem{{p, nil}}
	}
	mark := len(trail)
	for len(ex.work) > 0 {
		if ex.Paths >= ex.maxPaths {
			ex.Incomplete = append(ex.Incomplete, fmt.Sprintf("path cap %d reached with %d prefixes pending", ex.maxPaths, len(ex.work)))
			break
		}
		if !ex.deadline.IsZero() && time.Now().After(ex.deadline) {
			ex.Incomplete = append(ex.Incomplete, fmt.Sprintf("time budget exhausted with %d prefixes pending", len(ex.work)))
			break
		}
		w := ex.work[len(ex.work)-1]
		ex.work = ex.work[:len(ex.work)-1]
		ex.resetPath(w)
		end := ex.runOne(body)
		trailRollback(mark)
		if ex.shardN > 1 && (end.kind == "other-shard" || (ex.shardI != 0 && len(ex.trace) < ex.shardDepth)) {
			// explored (or to be explored) by another shard: do not count twice
			ex.Obligations, ex.Discharged, ex.Trivial = ex.pathObl, ex.pathDis, ex.pathTriv
			ex.Violations = ex.Violations[:ex.pathViol]
			continue
		}
		ex.Paths++
		ex.PathKinds[end.kind]++
		switch end.kind {
		case "unsupported":
			ex.Unsupported[end.msg]++
		case "unwind", "step-limit", "depth-limit":
			ex.Incomplete = append(ex.Incomplete, end.kind+": "+end.msg)
		}
		if end.kind == "done" && (len(ex.Validation) < ex.wantValidation) && (ex.Paths%ex.validationStride == 0 || len(ex.Validation) < 2) {
			if v, ok := ex.validationSample(); ok {
				ex.Validation = append(ex.Validation, v)
			}
		}
		if len(ex.Samples) < 4 || (ex.Paths%97 == 0 && len(ex.Samples) < 12) {
			ex.Samples = append(ex.Samples, ex.sample(end))
		}
		if verbose && ex.Paths%200 == 0 {
			fmt.Fprintf(os.Stderr, "  [%s] %d paths, %d pending, %d queries, %.1fs solver\n", name, ex.Paths, len(ex.work), ex.solver.Queries, ex.solver.SolveTime.Seconds())
		}
	}
}

func (ex *Explorer) sample(end pathEnd) PathSample {
	s := PathSample{Decisions: len(ex.trace), End: end.kind}
	if end.msg != "" {
		s.End += ": " + end.msg
	}
	for i, c := range ex.pc {
		if i >= samplePCMax {
			s.PC = append(s.PC, fmt.Sprintf("… (%d more conjuncts)", len(ex.pc)-samplePCMax))
			break
		}
		str := c.String()
		if len(str) > 200 {
			str = str[:200] + "…"
		}
		s.PC = append(s.PC, str)
	}
	if ex.model != nil {
		s.Model = map[string]uint64{}
		n := 0
		for k, v := range ex.model {
			if n >= 12 {
				break
			}
			s.Model[k] = v
			n++
		}
	}
	return s
}

func (ex *Explorer) runOne(body func()) (end pathEnd) {
	defer func() {
		r := recover()
		if r == nil {
			return
		}
		switch p := r.(type) {
		case pathEnd:
			end = p
			if p.kind == "blocked" {
				// the strand under test waits for ever (self-deadlock, a channel
				// nobody serves) outside a harness that expects blocking
				ex.Obligations++
				ex.recordViolation("strand blocks for ever: "+p.msg, "hang", p.msg, ex.where(), nil)
			}
		case targetPanic:
			// an uncaught Go panic in code under test
			msg := panicText(p.v)
			if ex.expectPanic[msg] {
				end = pathEnd{"done", "expected panic"}
				return
			}
			ex.Obligations++
			ex.recordViolation("uncaught panic: "+msg, "panic", msg, ex.where(), nil)
			end = pathEnd{"panic", msg}
		case engineFault:
			fmt.Fprintf(os.Stderr, "ENGINE-FAULT in harness %s: %s%s\n", ex.harness, p.msg, p.stack)
			ex.Incomplete = append(ex.Incomplete, "engine fault: "+p.msg)
			end = pathEnd{"engine-fault", p.msg}
		default:
			panic(r)
		}
	}()
	body()
	return pathEnd{"done", ""}
}

func panicText(v value) string {
	switch x := v.(type) {
	case iface:
		switch s := x.v.(type) {
		case string:
			return s
		case structure:
			return toString(s)
		}
		return toString(x.v)
	}
	return toString(v)
}

func (ex *Explorer) lockFault(msg string, fr *frame) {
	ex.LockFaults = append(ex.LockFaults, msg+" at "+stackOf(fr))
}
