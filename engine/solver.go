package main

// One persistent SMT solver process (z3 -in) driven incrementally.  The
// assertion stack mirrors the path condition of the path being executed:
// one push level per conjunct, so that sibling paths share their prefix.

import (
	"bufio"
	"fmt"
	"io"
	"os"
	"os/exec"
	"regexp"
	"strconv"
	"strings"
	"time"
)

type Result int

const (
	Unsat Result = iota
	Sat
	Unknown
)

func (r Result) String() string {
	return [...]string{"unsat", "sat", "unknown"}[r]
}

type Solver struct {
	bin     string
	args    []string
	cmd     *exec.Cmd
	in      io.WriteCloser
	out     *bufio.Reader
	stack   []*Term
	defined map[int]int    // node id -> stack level of its definition
	decl    map[string]int // variable -> stack level of its declaration
	level   int
	hardN   int
	log     *os.File

	// statistics
	Queries   int
	NSat      int
	NUnsat    int
	NUnknown  int
	NHybridMiss int
	NBadModel   int
	NErrors   int
	SolveTime time.Duration
	timeoutMs int
	FallbackQ int
}

// hybridMs > 0: try the incremental core for that many milliseconds first.
var hybridMs = func() int {
	if v := os.Getenv("GOSYM_HYBRID"); v != "" {
		n, _ := strconv.Atoi(v)
		return n
	}
	return 30
}()

func NewSolver(timeoutMs int) *Solver {
	s := &Solver{bin: "z3-new", args: []string{"-in"}, timeoutMs: timeoutMs}
	if p := os.Getenv("GOSYM_SMTLOG"); p != "" {
		s.log, _ = os.Create(p)
	}
	s.start()
	return s
}

func (s *Solver) start() {
	s.cmd = exec.Command(s.bin, s.args...)
	var err error
	s.in, err = s.cmd.StdinPipe()
	if err != nil {
		panic(err)
	}
	op, err := s.cmd.StdoutPipe()
	if err != nil {
		panic(err)
	}
	s.cmd.Stderr = os.Stderr
	s.out = bufio.NewReaderSize(op, 1<<20)
	if err := s.cmd.Start(); err != nil {
		panic(fmt.Sprintf("cannot start %s: %v", s.bin, err))
	}
	s.stack = nil
	s.defined = map[int]int{}
	s.decl = map[string]int{}
	s.level = 0
	s.send(fmt.Sprintf("(set-option :timeout %d)", s.timeoutMs))
}

func (s *Solver) Close() {
	if s.cmd != nil {
		s.in.Close()
		s.cmd.Process.Kill()
		s.cmd.Wait()
		s.cmd = nil
	}
}

func (s *Solver) restart() {
	s.Close()
	s.start()
}

func (s *Solver) send(line string) {
	if s.log != nil {
		fmt.Fprintln(s.log, line)
	}
	io.WriteString(s.in, line)
	io.WriteString(s.in, "\n")
}

// define emits declarations/definitions for every node under t that the
// solver has not seen yet, children first.
func (s *Solver) define(t *Term) {
	switch t.op {
	case OpConst:
		return
	case OpVar:
		if _, ok := s.decl[t.name]; !ok {
			s.decl[t.name] = s.level
			s.send(fmt.Sprintf("(declare-const %s %s)", smtName(t.name), sortOf(t.w)))
		}
		return
	}
	if _, ok := s.defined[t.id]; ok {
		return
	}
	// iterative post-order to avoid deep recursion on long chains
	type fr struct {
		t *Term
		i int
	}
	st := []fr{{t, 0}}
	for len(st) > 0 {
		top := &st[len(st)-1]
		if top.i < len(top.t.args) {
			a := top.t.args[top.i]
			top.i++
			if a.op == OpConst {
				continue
			}
			if a.op == OpVar {
				if _, ok := s.decl[a.name]; !ok {
					s.decl[a.name] = s.level
					s.send(fmt.Sprintf("(declare-const %s %s)", smtName(a.name), sortOf(a.w)))
				}
				continue
			}
			if _, ok := s.defined[a.id]; !ok {
				st = append(st, fr{a, 0})
			}
			continue
		}
		n := top.t
		st = st[:len(st)-1]
		if _, ok := s.defined[n.id]; !ok {
			s.defined[n.id] = s.level
			s.send(fmt.Sprintf("(define-fun n%d () %s %s)", n.id, sortOf(n.w), exprOf(n)))
		}
	}
}

func (s *Solver) syncStack(pc []*Term) {
	k := 0
	for k < len(s.stack) && k < len(pc) && s.stack[k] == pc[k] {
		k++
	}
	if n := len(s.stack) - k; n > 0 {
		s.popTo(k)
		s.stack = s.stack[:k]
	}
	for ; k < len(pc); k++ {
		s.pushLevel()
		s.define(pc[k])
		s.send(fmt.Sprintf("(assert %s)", refOf(pc[k])))
		s.stack = append(s.stack, pc[k])
	}
}

func (s *Solver) pushLevel() {
	s.send("(push 1)")
	s.level++
}

func (s *Solver) popTo(level int) {
	if level >= s.level {
		return
	}
	s.send(fmt.Sprintf("(pop %d)", s.level-level))
	s.level = level
	for id, l := range s.defined {
		if l > level {
			delete(s.defined, id)
		}
	}
	for n, l := range s.decl {
		if l > level {
			delete(s.decl, n)
		}
	}
}

var valRe = regexp.MustCompile(`\(\s*(\|[^|]*\||[^\s()]+)\s+(#x[0-9a-fA-F]+|#b[01]+|true|false)\s*\)`)

func (s *Solver) readResult() (Result, string) {
	var errs []string
	for {
		line, err := s.out.ReadString('\n')
		if err != nil {
			return Unknown, "solver died: " + err.Error()
		}
		line = strings.TrimSpace(line)
		switch {
		case line == "sat":
			if len(errs) > 0 {
				return Unknown, strings.Join(errs, "; ")
			}
			return Sat, ""
		case line == "unsat":
			if len(errs) > 0 {
				return Unknown, strings.Join(errs, "; ")
			}
			return Unsat, ""
		case line == "unknown" || line == "timeout":
			return Unknown, strings.Join(errs, "; ")
		case strings.HasPrefix(line, "(error"):
			errs = append(errs, line)
		case line == "":
		default:
			errs = append(errs, "unexpected: "+line)
		}
	}
}

func (s *Solver) readSexp() string {
	var sb strings.Builder
	depth := 0
	started := false
	for {
		line, err := s.out.ReadString('\n')
		if err != nil {
			return sb.String()
		}
		sb.WriteString(line)
		for _, c := range line {
			if c == '(' {
				depth++
				started = true
			} else if c == ')' {
				depth--
			}
		}
		if started && depth <= 0 {
			return sb.String()
		}
	}
}

// Check decides satisfiability of (and pc extra).  extra may be nil.
func (s *Solver) Check(pc []*Term, extra *Term, wantModel bool) (Result, Model) {
	s.Queries++
	t0 := time.Now()
	defer func() { s.SolveTime += time.Since(t0) }()

	if extra != nil && extra.op == OpConst {
		if extra.val == 0 {
			s.NUnsat++
			return Unsat, nil
		}
		extra = nil
	}
	s.syncStack(pc)
	base := s.level
	if extra != nil {
		s.pushLevel()
		s.define(extra)
		s.send(fmt.Sprintf("(assert %s)", refOf(extra)))
	}
	tq := time.Now()
	// watchdog: the tactic's own time limit is not always honoured
	proc := s.cmd.Process
	wd := time.AfterFunc(time.Duration(s.timeoutMs)*time.Millisecond*3/2+2*time.Second, func() { proc.Kill() })
	var res Result
	var msg string
	if hybridMs > 0 {
		// most queries are small: the incremental core answers them in a
		// millisecond; what it cannot decide quickly goes to the bit-blaster
		s.send(fmt.Sprintf("(set-option :timeout %d)", hybridMs))
		s.send("(check-sat)")
		res, msg = s.readResult()
		if res == Unknown && !strings.HasPrefix(msg, "solver died") {
			s.NHybridMiss++
			s.send(fmt.Sprintf("(set-option :timeout %d)", s.timeoutMs))
			s.send(fmt.Sprintf("(check-sat-using (try-for qfbv %d))", s.timeoutMs))
			res, msg = s.readResult()
		}
	} else {
		s.send(fmt.Sprintf("(check-sat-using (try-for qfbv %d))", s.timeoutMs))
		res, msg = s.readResult()
	}
	wd.Stop()
	if s.log != nil {
		fmt.Fprintf(s.log, "; -> %s in %dms\n", res, time.Since(tq).Milliseconds())
	}
	if d := os.Getenv("GOSYM_DUMPHARD"); d != "" && time.Since(tq) > 3*time.Second {
		s.hardN++
		os.WriteFile(fmt.Sprintf("%s/hard_%d.smt2", d, s.hardN), []byte(script(pc, extra, 0, false)), 0o644)
	}
	if msg != "" {
		s.NErrors++
		if verbose {
			fmt.Fprintf(os.Stderr, "solver: %s\n", msg)
		}
		if strings.HasPrefix(msg, "solver died") {
			s.restart()
			s.NUnknown++
			return Unknown, nil
		}
	}
	var model Model
	if res == Sat && wantModel {
		model = s.getModel(pc, extra)
		// the model steers which branch is taken without a further query, so
		// it must really satisfy the path condition (a truncated or failed
		// get-value must not go unnoticed)
		if !modelSatisfies(model, pc, extra) {
			s.NBadModel++
			s.send(fmt.Sprintf("(set-option :timeout %d)", s.timeoutMs))
			s.send(fmt.Sprintf("(check-sat-using (try-for qfbv %d))", s.timeoutMs))
			res, msg = s.readResult()
			model = nil
			if res == Sat {
				model = s.getModel(pc, extra)
				if !modelSatisfies(model, pc, extra) {
					s.NBadModel++
					model = nil
					res = Unknown
				}
			}
		}
	}
	if extra != nil {
		s.popTo(base)
	}
	switch res {
	case Sat:
		s.NSat++
	case Unsat:
		s.NUnsat++
	default:
		s.NUnknown++
		if r2, m2 := s.fallback(pc, extra, wantModel); r2 != Unknown {
			return r2, m2
		}
	}
	return res, model
}

func modelSatisfies(m Model, pc []*Term, extra *Term) bool {
	if m == nil {
		return false
	}
	for _, t := range pc {
		if m.Eval(t) == 0 {
			return false
		}
	}
	if extra != nil && m.Eval(extra) == 0 {
		return false
	}
	return true
}

func (s *Solver) getModel(pc []*Term, extra *Term) Model {
	var vars []*Term
	seen := map[int]bool{}
	for _, t := range pc {
		collectVars(t, seen, &vars)
	}
	if extra != nil {
		collectVars(extra, seen, &vars)
	}
	model := Model{}
	if len(vars) == 0 {
		return model
	}
	var sb strings.Builder
	sb.WriteString("(get-value (")
	for _, v := range vars {
		sb.WriteString(smtName(v.name))
		sb.WriteByte(' ')
	}
	sb.WriteString("))")
	s.send(sb.String())
	txt := s.readSexp()
	parseModel(txt, model)
	return model
}

func parseModel(txt string, model Model) {
	for _, m := range valRe.FindAllStringSubmatch(txt, -1) {
		name := strings.Trim(m[1], "|")
		v := m[2]
		var val uint64
		switch {
		case v == "true":
			val = 1
		case v == "false":
			val = 0
		case strings.HasPrefix(v, "#x"):
			val, _ = strconv.ParseUint(v[2:], 16, 64)
		case strings.HasPrefix(v, "#b"):
			val, _ = strconv.ParseUint(v[2:], 2, 64)
		}
		model[name] = val
	}
}

// script renders a self-contained SMT-LIB2 script for (and pc extra).
func script(pc []*Term, extra *Term, timeoutMs int, wantModel bool) string {
	var sb strings.Builder
	var vars []*Term
	seen := map[int]bool{}
	all := append([]*Term{}, pc...)
	if extra != nil {
		all = append(all, extra)
	}
	for _, t := range all {
		collectVars(t, seen, &vars)
	}
	for _, v := range vars {
		fmt.Fprintf(&sb, "(declare-const %s %s)\n", smtName(v.name), sortOf(v.w))
	}
	done := map[int]bool{}
	var emit func(t *Term)
	emit = func(t *Term) {
		if t.op == OpConst || t.op == OpVar || done[t.id] {
			return
		}
		for _, a := range t.args {
			emit(a)
		}
		done[t.id] = true
		fmt.Fprintf(&sb, "(define-fun n%d () %s %s)\n", t.id, sortOf(t.w), exprOf(t))
	}
	for _, t := range all {
		emit(t)
		fmt.Fprintf(&sb, "(assert %s)\n", refOf(t))
	}
	sb.WriteString("(check-sat)\n")
	if wantModel && len(vars) > 0 {
		sb.WriteString("(get-value (")
		for _, v := range vars {
			sb.WriteString(smtName(v.name))
			sb.WriteByte(' ')
		}
		sb.WriteString("))\n")
	}
	return sb.String()
}

var fallbackSolvers = [][]string{
	{"z3", "-in", "-T:60"},
	{"cvc5", "--lang=smt2", "--tlimit=60000", "--produce-models"},
}

// fallback runs a one-shot query on the other installed solvers.
func (s *Solver) fallback(pc []*Term, extra *Term, wantModel bool) (Result, Model) {
	if noFallback {
		return Unknown, nil
	}
	txt := script(pc, extra, 60000, wantModel)
	for _, fb := range fallbackSolvers {
		s.FallbackQ++
		r, m := runOneShot(fb, txt)
		if r != Unknown {
			return r, m
		}
	}
	return Unknown, nil
}

func runOneShot(argv []string, txt string) (Result, Model) {
	cmd := exec.Command(argv[0], argv[1:]...)
	pre := ""
	if argv[0] == "cvc5" {
		pre = "(set-logic QF_BV)\n"
	}
	cmd.Stdin = strings.NewReader(pre + txt)
	out, _ := cmd.Output()
	o := string(out)
	if strings.Contains(o, "(error") {
		return Unknown, nil
	}
	lines := strings.SplitN(strings.TrimSpace(o), "\n", 2)
	if len(lines) == 0 {
		return Unknown, nil
	}
	switch strings.TrimSpace(lines[0]) {
	case "sat":
		m := Model{}
		if len(lines) > 1 {
			parseModel(lines[1], m)
		}
		return Sat, m
	case "unsat":
		return Unsat, nil
	}
	return Unknown, nil
}

// CrossCheck re-decides a query on a second solver and reports disagreement.
func CrossCheck(pc []*Term, extra *Term, expect Result) (agree bool, got Result) {
	txt := script(pc, extra, 60000, false)
	r, _ := runOneShot(fallbackSolvers[0], txt)
	if r == Unknown {
		r, _ = runOneShot(fallbackSolvers[1], txt)
	}
	if r == Unknown {
		return true, r
	}
	return r == expect, r
}
